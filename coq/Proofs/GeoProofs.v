(** Proofs/GeoProofs.v — lemmas about Model/Geo.v (sample2D, bilin_inv, xy2ll, ll2xy, subgrids). *)
From Coq Require Import ZArith QArith Qround Qabs Qreduction List Bool Lia Lqa.
From Ladim Require Import Base.Num Model.Geo.
Import ListNotations.
Open Scope Q_scope.

(** * Lists *)
Lemma nth_opt_app_l {A} (l1 l2 : list A) n : (n < length l1)%nat -> nth_opt (l1 ++ l2) n = nth_opt l1 n.
Proof.
  revert n; induction l1 as [|a l1 IH]; intros n Hn; cbn in *; [lia|].
  destruct n; [reflexivity|]. apply IH. lia.
Qed.
Lemma nth_opt_app_r {A} (l1 l2 : list A) n : nth_opt (l1 ++ l2) (length l1 + n) = nth_opt l2 n.
Proof. induction l1 as [|a l1 IH]; cbn; [reflexivity|exact IH]. Qed.
Lemma nth_opt_map {A B} (f : A -> B) l n :
  nth_opt (map f l) n = match nth_opt l n with Some a => Some (f a) | None => None end.
Proof. revert n; induction l as [|a l IH]; intros [|n]; cbn; auto. Qed.
Lemma nth_opt_lt {A} (l : list A) n : (n < length l)%nat -> exists v, nth_opt l n = Some v.
Proof.
  revert n; induction l as [|a l IH]; intros n Hn; cbn in *; [lia|].
  destruct n; [eauto|]. apply IH. lia.
Qed.
Lemma length_zrange_aux s n : length (zrange_aux s n) = n.
Proof. revert s; induction n as [|n IH]; intro s; cbn; [reflexivity|]. now rewrite IH. Qed.
Lemma nth_opt_zrange_aux s n k : (k < n)%nat -> nth_opt (zrange_aux s n) k = Some (s + Z.of_nat k)%Z.
Proof.
  revert s k; induction n as [|n IH]; intros s k Hk; [lia|]. cbn [zrange_aux].
  destruct k as [|k]; cbn [nth_opt]; [f_equal; lia|]. rewrite IH by lia. f_equal. lia.
Qed.

(** rows of equal length laid out one after the other *)
Lemma nth_opt_flat_rows {A} (g : Z -> list A) w :
  (forall r, length (g r) = w) ->
  forall n s r k, (r < n)%nat -> (k < w)%nat ->
  nth_opt (flat_map g (zrange_aux s n)) (r * w + k) = nth_opt (g (s + Z.of_nat r)%Z) k.
Proof.
  intros Hw n; induction n as [|n IH]; intros s r k Hr Hk; [lia|].
  cbn [zrange_aux flat_map]. destruct r as [|r].
  - cbn [Nat.mul Nat.add]. rewrite nth_opt_app_l by (rewrite Hw; exact Hk).
    replace (s + Z.of_nat 0)%Z with s by lia. reflexivity.
  - replace (S r * w + k)%nat with (length (g s) + (r * w + k))%nat by (rewrite Hw; lia).
    rewrite nth_opt_app_r. rewrite IH by lia. f_equal. f_equal. lia.
Qed.

(** * Arrays *)
Lemma in_range_iff A r c : in_range A r c = true <-> (0 <= r < nrow A /\ 0 <= c < ncol A)%Z.
Proof. unfold in_range. rewrite !andb_true_iff, !Z.leb_le, !Z.ltb_lt. lia. Qed.

Lemma aget_atab nr nc f r c : (0 <= r < nr)%Z -> (0 <= c < nc)%Z -> aget (atab nr nc f) r c = Some (f r c).
Proof.
  intros Hr Hc. unfold aget.
  assert (in_range (atab nr nc f) r c = true) as ->
    by (apply in_range_iff; cbn [atab nrow ncol]; lia).
  cbn [atab adat ncol]. unfold znth_opt.
  assert ((r * nc + c <? 0)%Z = false) as -> by (apply Z.ltb_ge; nia).
  replace (Z.to_nat (r * nc + c)) with (Z.to_nat r * Z.to_nat nc + Z.to_nat c)%nat by nia.
  unfold zrange at 2. rewrite Z.sub_0_r.
  rewrite (nth_opt_flat_rows (fun r0 => map (fun c0 => f r0 c0) (zrange 0 nc)) (Z.to_nat nc)).
  - rewrite nth_opt_map. unfold zrange. rewrite Z.sub_0_r, nth_opt_zrange_aux by lia.
    f_equal. f_equal; lia.
  - intro r0. rewrite map_length. unfold zrange. rewrite length_zrange_aux. lia.
  - lia.
  - lia.
Qed.

Lemma aget_in_range A r c v : aget A r c = Some v -> in_range A r c = true.
Proof. unfold aget. destruct (in_range A r c); [reflexivity|discriminate]. Qed.

Lemma aget_wf A r c : wf_arr A = true -> in_range A r c = true -> exists v, aget A r c = Some v.
Proof.
  intros Hwf Hin. unfold aget. rewrite Hin. apply in_range_iff in Hin.
  unfold wf_arr in Hwf. rewrite !andb_true_iff, !Z.leb_le, Z.eqb_eq in Hwf.
  unfold znth_opt. assert ((r * ncol A + c <? 0)%Z = false) as -> by (apply Z.ltb_ge; nia).
  apply nth_opt_lt. nia.
Qed.

Lemma aget_asub A r0 r1 c0 c1 r c :
  wf_arr A = true -> (0 <= r0)%Z -> (r1 <= nrow A)%Z -> (0 <= c0)%Z -> (c1 <= ncol A)%Z ->
  (0 <= r < r1 - r0)%Z -> (0 <= c < c1 - c0)%Z ->
  aget (asub A r0 r1 c0 c1) r c = aget A (r0 + r) (c0 + c).
Proof.
  intros Hwf H1 H2 H3 H4 Hr Hc. unfold asub. rewrite aget_atab by assumption.
  destruct (aget_wf A (r0 + r) (c0 + c) Hwf) as [v ->]; [apply in_range_iff; lia|reflexivity].
Qed.

Lemma nrow_asub A r0 r1 c0 c1 : nrow (asub A r0 r1 c0 c1) = (r1 - r0)%Z.
Proof. reflexivity. Qed.
Lemma ncol_asub A r0 r1 c0 c1 : ncol (asub A r0 r1 c0 c1) = (c1 - c0)%Z.
Proof. reflexivity. Qed.

Lemma corners_some A r c k :
  corners A r c = Some k <->
  aget A r c = Some (n00 k) /\ aget A (r + 1) c = Some (n01 k) /\
  aget A r (c + 1) = Some (n10 k) /\ aget A (r + 1) (c + 1) = Some (n11 k).
Proof.
  unfold corners. split.
  - destruct (aget A r c), (aget A (r + 1) c), (aget A r (c + 1)), (aget A (r + 1) (c + 1));
      try discriminate. intro H. injection H as <-. cbn. auto.
  - intros (-> & -> & -> & ->). destruct k; reflexivity.
Qed.

Lemma corners_wf A r c : wf_arr A = true -> (0 <= r)%Z -> (r + 1 < nrow A)%Z -> (0 <= c)%Z -> (c + 1 < ncol A)%Z ->
  exists k, corners A r c = Some k.
Proof.
  intros Hwf H1 H2 H3 H4.
  destruct (aget_wf A r c Hwf) as [a Ha]; [apply in_range_iff; lia|].
  destruct (aget_wf A (r + 1) c Hwf) as [b Hb]; [apply in_range_iff; lia|].
  destruct (aget_wf A r (c + 1) Hwf) as [c' Hc]; [apply in_range_iff; lia|].
  destruct (aget_wf A (r + 1) (c + 1) Hwf) as [d Hd]; [apply in_range_iff; lia|].
  exists (Quad a b c' d). apply corners_some. cbn. auto.
Qed.

Lemma corners_in_range A r c k : corners A r c = Some k ->
  (0 <= r)%Z /\ (r + 1 < nrow A)%Z /\ (0 <= c)%Z /\ (c + 1 < ncol A)%Z.
Proof.
  intro H. apply corners_some in H. destruct H as (H1 & _ & _ & H4).
  apply aget_in_range, in_range_iff in H1. apply aget_in_range, in_range_iff in H4. lia.
Qed.

(** * Truncation of positions *)
Lemma qtrunc_comp x y : x == y -> qtrunc x = qtrunc y.
Proof.
  intro H. unfold qtrunc. rewrite (Qfloor_comp _ _ H), (Qceiling_comp _ _ H).
  destruct (Qle_bool 0 x) eqn:E1, (Qle_bool 0 y) eqn:E2; try reflexivity.
  - apply Qle_bool_true in E1. apply Qle_bool_false in E2. lra.
  - apply Qle_bool_true in E2. apply Qle_bool_false in E1. lra.
Qed.

Lemma inject_Z_succ n : inject_Z (n + 1) == inject_Z n + 1.
Proof. rewrite inject_Z_plus. reflexivity. Qed.

(** for 0 <= x < n - 1 the index i = trunc x is a cell of an axis of length n, and 0 <= x - i < 1 *)
Lemma trunc_cell x n : 0 <= x -> x < inject_Z (n - 1) ->
  (0 <= qtrunc x)%Z /\ (qtrunc x + 1 < n)%Z /\ 0 <= x - inject_Z (qtrunc x) /\ x - inject_Z (qtrunc x) < 1.
Proof.
  intros H0 H1. rewrite (qtrunc_nonneg x H0). destruct (qfloor_spec x) as [A B].
  rewrite inject_Z_succ in B.
  assert (inject_Z 0 < inject_Z (qfloor x + 1)) as L1
    by (rewrite inject_Z_succ; change (inject_Z 0) with 0; lra).
  assert (inject_Z (qfloor x) < inject_Z (n - 1)) as L2 by lra.
  rewrite <- Zlt_Qlt in L1, L2. repeat split; try lia; lra.
Qed.

Lemma qfloor_shift x n : qfloor (x - inject_Z n) = (qfloor x - n)%Z.
Proof.
  apply qfloor_unique. destruct (qfloor_spec x) as [A B].
  rewrite inject_Z_succ in B. rewrite inject_Z_succ.
  unfold Zminus. rewrite inject_Z_plus, inject_Z_opp. lra.
Qed.

(** * sample2D: the outside test and the inside characterisation *)
Lemma outside_false F x y :
  outside F x y = false <-> (0 <= x /\ x < inject_Z (ncol F - 1) /\ 0 <= y /\ y < inject_Z (nrow F - 1)).
Proof.
  unfold outside. rewrite !orb_false_iff, !Qlt_bool_false, !Qle_bool_false. tauto.
Qed.
Lemma outside_true F x y :
  outside F x y = true <-> (x < 0 \/ inject_Z (ncol F - 1) <= x \/ y < 0 \/ inject_Z (nrow F - 1) <= y).
Proof.
  unfold outside. rewrite !orb_true_iff, !Qlt_bool_true, !Qle_bool_true. tauto.
Qed.

Definition frac (x : Q) : Q := x - inject_Z (qtrunc x).

Lemma sample2D_inside_nomask F undef outv x y v :
  outside F x y = false -> corners F (qtrunc y) (qtrunc x) = Some v ->
  sample2D F None undef outv x y = SVal (s2d_value undef None v (frac x) (frac y)).
Proof.
  intros Ho Hc. unfold sample2D. rewrite Ho. cbn match.
  destruct outv; rewrite Hc; reflexivity.
Qed.

Lemma sample2D_inside_mask F M undef outv x y v m :
  same_shape M F = true -> outside F x y = false ->
  corners F (qtrunc y) (qtrunc x) = Some v -> corners M (qtrunc y) (qtrunc x) = Some m ->
  sample2D F (Some M) undef outv x y = SVal (s2d_value undef (Some m) v (frac x) (frac y)).
Proof.
  intros Hs Ho Hc Hm. unfold sample2D. rewrite Hs, Ho. cbn [negb].
  destruct outv; rewrite Hm, Hc; reflexivity.
Qed.

Lemma inside_cell F x y : wf_arr F = true -> outside F x y = false ->
  exists v, corners F (qtrunc y) (qtrunc x) = Some v /\
            0 <= frac x /\ frac x < 1 /\ 0 <= frac y /\ frac y < 1.
Proof.
  intros Hwf Ho. apply outside_false in Ho. destruct Ho as (X0 & X1 & Y0 & Y1).
  destruct (trunc_cell x _ X0 X1) as (A1 & A2 & A3 & A4).
  destruct (trunc_cell y _ Y0 Y1) as (B1 & B2 & B3 & B4).
  destruct (corners_wf F (qtrunc y) (qtrunc x) Hwf B1 B2 A1 A2) as [v Hv].
  exists v. unfold frac. auto.
Qed.

(** * The interpolation kernel [s2d_value] (pure algebra) *)
Definition wsum (v : quad) (p q : Q) : Q :=
  (1 - p) * (1 - q) * n00 v + (1 - p) * q * n01 v + p * (1 - q) * n10 v + p * q * n11 v.
(** sum of the masked weights and masked weighted sum *)
Definition msw (m : quad) (p q : Q) : Q :=
  n00 m * ((1 - p) * (1 - q)) + n01 m * ((1 - p) * q) + n10 m * (p * (1 - q)) + n11 m * (p * q).
Definition mnum (m v : quad) (p q : Q) : Q :=
  n00 m * ((1 - p) * (1 - q)) * n00 v + n01 m * ((1 - p) * q) * n01 v
  + n10 m * (p * (1 - q)) * n10 v + n11 m * (p * q) * n11 v.

Lemma s2d_nomask undef v p q : s2d_value undef None v p q == wsum v p q.
Proof.
  unfold s2d_value, wsum. cbn [apply_mask weights fst snd n00 n01 n10 n11].
  change (Qeq_bool 1 0) with false. cbn iota. change (Qle_bool 1 0) with false. cbn iota. field.
Qed.

Lemma s2d_mask_unfold undef m v p q :
  s2d_value undef (Some m) v p q =
  (if Qle_bool (if Qeq_bool (msw m p q) 0 then - (1) else msw m p q) 0 then undef
   else mnum m v p q / (if Qeq_bool (msw m p q) 0 then - (1) else msw m p q)).
Proof. reflexivity. Qed.

Lemma s2d_mask_zero undef m v p q : msw m p q == 0 -> s2d_value undef (Some m) v p q = undef.
Proof.
  intro H. rewrite s2d_mask_unfold. apply Qeq_eq_bool in H. rewrite H. reflexivity.
Qed.
Lemma s2d_mask_neg undef m v p q : msw m p q < 0 -> s2d_value undef (Some m) v p q = undef.
Proof.
  intro H. rewrite s2d_mask_unfold. destruct (Qeq_bool (msw m p q) 0); [reflexivity|].
  assert (Qle_bool (msw m p q) 0 = true) as -> by (apply Qle_bool_true; lra). reflexivity.
Qed.
Lemma s2d_mask_pos undef m v p q : 0 < msw m p q ->
  s2d_value undef (Some m) v p q == mnum m v p q / msw m p q.
Proof.
  intro H. rewrite s2d_mask_unfold. destruct (Qeq_bool (msw m p q) 0) eqn:E.
  - apply Qeq_bool_iff in E. lra.
  - assert (Qle_bool (msw m p q) 0 = false) as -> by (apply Qle_bool_false; exact H). reflexivity.
Qed.

(** T1 kernel: nodes carrying a bilinear function of (column i, row j) *)
Lemma kernel_bilinear undef a b c d i j v p q :
  n00 v == a + b * i + c * j + d * i * j ->
  n01 v == a + b * i + c * (j + 1) + d * i * (j + 1) ->
  n10 v == a + b * (i + 1) + c * j + d * (i + 1) * j ->
  n11 v == a + b * (i + 1) + c * (j + 1) + d * (i + 1) * (j + 1) ->
  s2d_value undef None v p q == a + b * (i + p) + c * (j + q) + d * (i + p) * (j + q).
Proof.
  intros H1 H2 H3 H4. rewrite s2d_nomask. unfold wsum. rewrite H1, H2, H3, H4. ring.
Qed.

Lemma weights_nonneg p q : 0 <= p -> p <= 1 -> 0 <= q -> q <= 1 ->
  0 <= (1 - p) * (1 - q) /\ 0 <= (1 - p) * q /\ 0 <= p * (1 - q) /\ 0 <= p * q.
Proof. intros; repeat split; apply Qmult_le_0_compat; lra. Qed.

(** one term of a convex combination *)
Lemma term_bounds w v lo hi : 0 <= w -> lo <= v -> v <= hi -> lo * w <= w * v /\ w * v <= hi * w.
Proof.
  intros Hw H1 H2.
  pose proof (Qmult_le_0_compat _ _ Hw (proj1 (Qle_minus_iff lo v) H1)) as A.
  pose proof (Qmult_le_0_compat _ _ Hw (proj1 (Qle_minus_iff v hi) H2)) as B.
  split; lra.
Qed.

(** T2 kernel *)
Lemma kernel_convex undef v p q lo hi :
  0 <= p -> p <= 1 -> 0 <= q -> q <= 1 ->
  lo <= n00 v <= hi -> lo <= n01 v <= hi -> lo <= n10 v <= hi -> lo <= n11 v <= hi ->
  lo <= s2d_value undef None v p q <= hi.
Proof.
  intros P0 P1 Q0 Q1 [A1 A2] [B1 B2] [C1 C2] [D1 D2]. rewrite s2d_nomask. unfold wsum.
  destruct (weights_nonneg p q P0 P1 Q0 Q1) as (W1 & W2 & W3 & W4).
  destruct (term_bounds _ _ lo hi W1 A1 A2) as [E1 E2].
  destruct (term_bounds _ _ lo hi W2 B1 B2) as [F1 F2].
  destruct (term_bounds _ _ lo hi W3 C1 C2) as [G1 G2].
  destruct (term_bounds _ _ lo hi W4 D1 D2) as [I1 I2].
  split; lra.
Qed.

Definition qmin4 (v : quad) : Q := Qmin' (Qmin' (n00 v) (n01 v)) (Qmin' (n10 v) (n11 v)).
Definition qmax4 (v : quad) : Q := Qmax' (Qmax' (n00 v) (n01 v)) (Qmax' (n10 v) (n11 v)).
Lemma qmin4_le v : qmin4 v <= n00 v /\ qmin4 v <= n01 v /\ qmin4 v <= n10 v /\ qmin4 v <= n11 v.
Proof.
  unfold qmin4.
  destruct (Qmin'_spec (Qmin' (n00 v) (n01 v)) (Qmin' (n10 v) (n11 v))) as (A & B & _).
  destruct (Qmin'_spec (n00 v) (n01 v)) as (C & D & _).
  destruct (Qmin'_spec (n10 v) (n11 v)) as (E & F & _).
  repeat split; lra.
Qed.
Lemma qmax4_ge v : n00 v <= qmax4 v /\ n01 v <= qmax4 v /\ n10 v <= qmax4 v /\ n11 v <= qmax4 v.
Proof.
  unfold qmax4.
  destruct (Qmax'_spec (Qmax' (n00 v) (n01 v)) (Qmax' (n10 v) (n11 v))) as (A & B & _).
  destruct (Qmax'_spec (n00 v) (n01 v)) as (C & D & _).
  destruct (Qmax'_spec (n10 v) (n11 v)) as (E & F & _).
  repeat split; lra.
Qed.

(** T3 kernels.  A mask value is 0 (masked) or 1. *)
Definition is01 (m : Q) : Prop := m == 0 \/ m == 1.
Definition mask01 (m : quad) : Prop := is01 (n00 m) /\ is01 (n01 m) /\ is01 (n10 m) /\ is01 (n11 m).

Lemma kernel_all_masked undef m v p q :
  n00 m == 0 -> n01 m == 0 -> n10 m == 0 -> n11 m == 0 -> s2d_value undef (Some m) v p q = undef.
Proof.
  intros H1 H2 H3 H4. apply s2d_mask_zero. unfold msw. rewrite H1, H2, H3, H4. ring.
Qed.

Lemma kernel_all_unmasked undef m v p q :
  n00 m == 1 -> n01 m == 1 -> n10 m == 1 -> n11 m == 1 ->
  s2d_value undef (Some m) v p q == s2d_value undef None v p q.
Proof.
  intros H1 H2 H3 H4.
  assert (msw m p q == 1) as S by (unfold msw; rewrite H1, H2, H3, H4; ring).
  rewrite s2d_mask_pos by lra. rewrite s2d_nomask, S. unfold mnum, wsum. rewrite H1, H2, H3, H4. field.
Qed.

Lemma masked_term m w a b : (m == 0 \/ a == b) -> m * w * a == m * w * b.
Proof. intros [H|H]; rewrite H; ring. Qed.

(** the value at a masked node is irrelevant *)
Lemma kernel_ignores_masked undef m v v' p q :
  (n00 m == 0 \/ n00 v == n00 v') -> (n01 m == 0 \/ n01 v == n01 v') ->
  (n10 m == 0 \/ n10 v == n10 v') -> (n11 m == 0 \/ n11 v == n11 v') ->
  s2d_value undef (Some m) v p q == s2d_value undef (Some m) v' p q.
Proof.
  intros H1 H2 H3 H4.
  destruct (Q_dec (msw m p q) 0) as [[L|G]|E].
  - rewrite !s2d_mask_neg by exact L. reflexivity.
  - rewrite !s2d_mask_pos by exact G. unfold mnum.
    rewrite (masked_term _ _ _ _ H1), (masked_term _ _ _ _ H2), (masked_term _ _ _ _ H3),
      (masked_term _ _ _ _ H4). reflexivity.
  - rewrite !s2d_mask_zero by exact E. reflexivity.
Qed.

Lemma mterm_bounds m w v lo hi : is01 m -> 0 <= w -> (m == 0 \/ lo <= v <= hi) ->
  lo * (m * w) <= m * w * v /\ m * w * v <= hi * (m * w).
Proof.
  intros [M|M] Hw H.
  - rewrite M. split; lra.
  - destruct H as [H|[H1 H2]]; [rewrite H in M; lra|].
    destruct (term_bounds w v lo hi Hw H1 H2). rewrite M. split; lra.
Qed.

(** with a 0/1 mask the value is a convex combination of the unmasked nodes *)
Lemma kernel_mask_convex undef m v p q lo hi :
  mask01 m -> 0 <= p -> p <= 1 -> 0 <= q -> q <= 1 -> 0 < msw m p q ->
  (n00 m == 0 \/ lo <= n00 v <= hi) -> (n01 m == 0 \/ lo <= n01 v <= hi) ->
  (n10 m == 0 \/ lo <= n10 v <= hi) -> (n11 m == 0 \/ lo <= n11 v <= hi) ->
  lo <= s2d_value undef (Some m) v p q <= hi.
Proof.
  intros (M1 & M2 & M3 & M4) P0 P1 Q0 Q1 S H1 H2 H3 H4.
  rewrite s2d_mask_pos by exact S.
  destruct (weights_nonneg p q P0 P1 Q0 Q1) as (W1 & W2 & W3 & W4).
  destruct (mterm_bounds _ _ _ lo hi M1 W1 H1) as [A1 A2].
  destruct (mterm_bounds _ _ _ lo hi M2 W2 H2) as [B1 B2].
  destruct (mterm_bounds _ _ _ lo hi M3 W3 H3) as [C1 C2].
  destruct (mterm_bounds _ _ _ lo hi M4 W4 H4) as [D1 D2].
  assert (lo * msw m p q <= mnum m v p q) as L by (unfold msw, mnum; lra).
  assert (mnum m v p q <= hi * msw m p q) as U by (unfold msw, mnum; lra).
  split; [apply Qle_shift_div_l|apply Qle_shift_div_r]; assumption.
Qed.

(** a 0/1 mask never gives a negative weight sum *)
Lemma msw_nonneg m p q : mask01 m -> 0 <= p -> p <= 1 -> 0 <= q -> q <= 1 -> 0 <= msw m p q.
Proof.
  intros (M1 & M2 & M3 & M4) P0 P1 Q0 Q1.
  destruct (weights_nonneg p q P0 P1 Q0 Q1) as (W1 & W2 & W3 & W4).
  unfold msw. destruct M1 as [-> | ->], M2 as [-> | ->], M3 as [-> | ->], M4 as [-> | ->]; lra.
Qed.

(** * sample2D theorems *)
(** results equal up to [==] on the value *)
Definition sres_eq (a b : sres) : Prop :=
  match a, b with
  | SVal u, SVal v => u == v
  | SOutside, SOutside | SBadMask, SBadMask | SIndex, SIndex => True
  | _, _ => False
  end.

(** [F[j, i] = a + b i + c j + d i j] at every node *)
Definition bilinear_arr (F : arr2) (a b c d : Q) : Prop :=
  forall r cc, in_range F r cc = true ->
  exists v, aget F r cc = Some v /\
            v == a + b * inject_Z cc + c * inject_Z r + d * inject_Z cc * inject_Z r.

Lemma bilinear_corners F a b c d r cc :
  bilinear_arr F a b c d -> (0 <= r)%Z -> (r + 1 < nrow F)%Z -> (0 <= cc)%Z -> (cc + 1 < ncol F)%Z ->
  exists v, corners F r cc = Some v /\
    n00 v == a + b * inject_Z cc + c * inject_Z r + d * inject_Z cc * inject_Z r /\
    n01 v == a + b * inject_Z cc + c * (inject_Z r + 1) + d * inject_Z cc * (inject_Z r + 1) /\
    n10 v == a + b * (inject_Z cc + 1) + c * inject_Z r + d * (inject_Z cc + 1) * inject_Z r /\
    n11 v == a + b * (inject_Z cc + 1) + c * (inject_Z r + 1) + d * (inject_Z cc + 1) * (inject_Z r + 1).
Proof.
  intros HB R0 R1 C0 C1.
  destruct (HB r cc) as (v1 & G1 & E1); [apply in_range_iff; lia|].
  destruct (HB (r + 1)%Z cc) as (v2 & G2 & E2); [apply in_range_iff; lia|].
  destruct (HB r (cc + 1)%Z) as (v3 & G3 & E3); [apply in_range_iff; lia|].
  destruct (HB (r + 1)%Z (cc + 1)%Z) as (v4 & G4 & E4); [apply in_range_iff; lia|].
  exists (Quad v1 v2 v3 v4). split; [apply corners_some; cbn; auto|].
  cbn [n00 n01 n10 n11]. rewrite !inject_Z_succ in *. auto.
Qed.

(** T1 *)
Lemma sample2D_bilinear_exact F a b c d undef outv x y :
  bilinear_arr F a b c d -> outside F x y = false ->
  exists v, sample2D F None undef outv x y = SVal v /\ v == a + b * x + c * y + d * x * y.
Proof.
  intros HB Ho. pose proof Ho as Hi. apply outside_false in Hi. destruct Hi as (X0 & X1 & Y0 & Y1).
  destruct (trunc_cell x _ X0 X1) as (A1 & A2 & _).
  destruct (trunc_cell y _ Y0 Y1) as (B1 & B2 & _).
  destruct (bilinear_corners F a b c d _ _ HB B1 B2 A1 A2) as (v & Hc & E1 & E2 & E3 & E4).
  eexists. split; [apply (sample2D_inside_nomask F undef outv x y v Ho Hc)|].
  rewrite (kernel_bilinear undef a b c d _ _ v _ _ E1 E2 E3 E4). unfold frac. ring.
Qed.

(** T2 *)
Lemma sample2D_convex F undef outv x y :
  wf_arr F = true -> outside F x y = false ->
  exists k v, corners F (qtrunc y) (qtrunc x) = Some k /\
              sample2D F None undef outv x y = SVal v /\ qmin4 k <= v <= qmax4 k.
Proof.
  intros Hwf Ho. destruct (inside_cell F x y Hwf Ho) as (k & Hc & P0 & P1 & Q0 & Q1).
  exists k. eexists. split; [exact Hc|]. split; [apply (sample2D_inside_nomask F undef outv x y k Ho Hc)|].
  destruct (qmin4_le k) as (L1 & L2 & L3 & L4). destruct (qmax4_ge k) as (U1 & U2 & U3 & U4).
  apply kernel_convex; try lra; split; assumption.
Qed.

(** bounds form of T2: any interval containing the four corner values contains the sample *)
Lemma sample2D_between F undef outv x y lo hi :
  wf_arr F = true -> outside F x y = false ->
  (forall r c v, aget F r c = Some v -> lo <= v <= hi) ->
  exists v, sample2D F None undef outv x y = SVal v /\ lo <= v <= hi.
Proof.
  intros Hwf Ho Hb. destruct (inside_cell F x y Hwf Ho) as (k & Hc & P0 & P1 & Q0 & Q1).
  eexists. split; [apply (sample2D_inside_nomask F undef outv x y k Ho Hc)|].
  apply corners_some in Hc. destruct Hc as (C1 & C2 & C3 & C4).
  apply kernel_convex; try lra; eauto.
Qed.

(** T3.  A mask array whose entries are 0 or 1 *)
Definition mask_arr01 (M : arr2) : Prop := forall r c v, aget M r c = Some v -> is01 v.

Lemma mask_cell F M x y :
  wf_arr F = true -> wf_arr M = true -> same_shape M F = true -> outside F x y = false ->
  exists k m, corners F (qtrunc y) (qtrunc x) = Some k /\ corners M (qtrunc y) (qtrunc x) = Some m /\
              0 <= frac x /\ frac x < 1 /\ 0 <= frac y /\ frac y < 1.
Proof.
  intros HwF HwM Hs Ho. destruct (inside_cell F x y HwF Ho) as (k & Hc & P0 & P1 & Q0 & Q1).
  destruct (corners_in_range _ _ _ _ Hc) as (R0 & R1 & C0 & C1).
  unfold same_shape in Hs. rewrite andb_true_iff, !Z.eqb_eq in Hs. destruct Hs as [S1 S2].
  destruct (corners_wf M (qtrunc y) (qtrunc x) HwM) as [m Hm]; try lia.
  exists k, m. auto 10.
Qed.

Lemma mask01_corners M r c m : mask_arr01 M -> corners M r c = Some m -> mask01 m.
Proof.
  intros HM Hc. apply corners_some in Hc. destruct Hc as (C1 & C2 & C3 & C4).
  repeat split; eapply HM; eassumption.
Qed.

(** T3a: the value is the weighted mean over the unmasked nodes (weights renormalised by their sum),
    and undef_value when that sum is zero *)
Lemma sample2D_mask_value F M undef outv x y :
  wf_arr F = true -> wf_arr M = true -> same_shape M F = true -> mask_arr01 M -> outside F x y = false ->
  exists k m v, corners F (qtrunc y) (qtrunc x) = Some k /\ corners M (qtrunc y) (qtrunc x) = Some m /\
    mask01 m /\ sample2D F (Some M) undef outv x y = SVal v /\
    0 <= msw m (frac x) (frac y) /\
    (msw m (frac x) (frac y) == 0 -> v = undef) /\
    (0 < msw m (frac x) (frac y) -> v == mnum m k (frac x) (frac y) / msw m (frac x) (frac y)).
Proof.
  intros HwF HwM Hs HM Ho. destruct (mask_cell F M x y HwF HwM Hs Ho) as (k & m & Hc & Hm & P0 & P1 & Q0 & Q1).
  exists k, m. eexists. split; [exact Hc|]. split; [exact Hm|].
  pose proof (mask01_corners _ _ _ _ HM Hm) as H01. split; [exact H01|].
  split; [apply (sample2D_inside_mask F M undef outv x y k m Hs Ho Hc Hm)|].
  split; [apply msw_nonneg; try assumption; lra|].
  split; [apply s2d_mask_zero|apply s2d_mask_pos].
Qed.

(** T3b: all four nodes of the cell masked => undef_value *)
Lemma sample2D_all_masked F M undef outv x y m :
  wf_arr F = true -> same_shape M F = true -> outside F x y = false ->
  corners M (qtrunc y) (qtrunc x) = Some m ->
  n00 m == 0 -> n01 m == 0 -> n10 m == 0 -> n11 m == 0 ->
  sample2D F (Some M) undef outv x y = SVal undef.
Proof.
  intros HwF Hs Ho Hm H1 H2 H3 H4. destruct (inside_cell F x y HwF Ho) as (k & Hc & _).
  rewrite (sample2D_inside_mask F M undef outv x y k m Hs Ho Hc Hm).
  f_equal. apply kernel_all_masked; assumption.
Qed.

(** T3c: two fields that agree at every unmasked node are sampled identically *)
Definition agree_unmasked (M F F' : arr2) : Prop :=
  forall r c mv a b, aget M r c = Some mv -> aget F r c = Some a -> aget F' r c = Some b -> mv == 0 \/ a == b.

Lemma sample2D_ignores_masked F F' M undef outv x y :
  wf_arr F = true -> wf_arr F' = true -> wf_arr M = true ->
  same_shape M F = true -> same_shape M F' = true -> agree_unmasked M F F' -> outside F x y = false ->
  sres_eq (sample2D F (Some M) undef outv x y) (sample2D F' (Some M) undef outv x y).
Proof.
  intros HwF HwF' HwM Hs Hs' Hag Ho.
  assert (outside F' x y = false) as Ho'.
  { unfold outside in *. unfold same_shape in Hs, Hs'. rewrite andb_true_iff, !Z.eqb_eq in Hs, Hs'.
    destruct Hs as [S1 S2], Hs' as [S3 S4]. rewrite <- S3, <- S4, S1, S2. exact Ho. }
  destruct (mask_cell F M x y HwF HwM Hs Ho) as (k & m & Hc & Hm & _).
  destruct (inside_cell F' x y HwF' Ho') as (k' & Hc' & _).
  rewrite (sample2D_inside_mask F M undef outv x y k m Hs Ho Hc Hm).
  rewrite (sample2D_inside_mask F' M undef outv x y k' m Hs' Ho' Hc' Hm).
  cbn [sres_eq]. apply corners_some in Hc, Hc', Hm.
  destruct Hc as (C1 & C2 & C3 & C4), Hc' as (D1 & D2 & D3 & D4), Hm as (M1 & M2 & M3 & M4).
  apply kernel_ignores_masked; eauto.
Qed.

(** T3d: with a 0/1 mask and positive weight sum the value lies between bounds of the unmasked nodes *)
Lemma sample2D_mask_between F M undef outv x y lo hi :
  wf_arr F = true -> wf_arr M = true -> same_shape M F = true -> mask_arr01 M -> outside F x y = false ->
  (forall r c mv v, aget M r c = Some mv -> aget F r c = Some v -> mv == 0 \/ lo <= v <= hi) ->
  lo <= undef <= hi ->
  exists v, sample2D F (Some M) undef outv x y = SVal v /\ lo <= v <= hi.
Proof.
  intros HwF HwM Hs HM Ho Hb Hu.
  destruct (mask_cell F M x y HwF HwM Hs Ho) as (k & m & Hc & Hm & P0 & P1 & Q0 & Q1).
  eexists. split; [apply (sample2D_inside_mask F M undef outv x y k m Hs Ho Hc Hm)|].
  pose proof (mask01_corners _ _ _ _ HM Hm) as H01.
  assert (0 <= msw m (frac x) (frac y)) as S by (apply msw_nonneg; try assumption; lra).
  destruct (Qle_lt_or_eq _ _ S) as [G|E].
  - apply corners_some in Hc, Hm.
    destruct Hc as (C1 & C2 & C3 & C4), Hm as (M1 & M2 & M3 & M4).
    apply kernel_mask_convex; try assumption; try lra; eauto.
  - rewrite s2d_mask_zero by (symmetry; exact E). exact Hu.
Qed.

(** T3e: a mask of ones is no mask *)
Lemma sample2D_mask_ones F M undef outv x y :
  wf_arr F = true -> wf_arr M = true -> same_shape M F = true -> outside F x y = false ->
  (forall r c v, aget M r c = Some v -> v == 1) ->
  sres_eq (sample2D F (Some M) undef outv x y) (sample2D F None undef outv x y).
Proof.
  intros HwF HwM Hs Ho H1.
  destruct (mask_cell F M x y HwF HwM Hs Ho) as (k & m & Hc & Hm & _).
  rewrite (sample2D_inside_mask F M undef outv x y k m Hs Ho Hc Hm).
  rewrite (sample2D_inside_nomask F undef outv x y k Ho Hc). cbn [sres_eq].
  apply corners_some in Hm. destruct Hm as (M1 & M2 & M3 & M4).
  apply kernel_all_unmasked; eauto.
Qed.

(** T4: outside points *)
Definition mask_ok (F : arr2) (mask : option arr2) : bool :=
  match mask with None => true | Some M => same_shape M F && wf_arr M end.

Lemma sample2D_outside_value F mask undef ov x y :
  wf_arr F = true -> (2 <= nrow F)%Z -> (2 <= ncol F)%Z -> mask_ok F mask = true ->
  outside F x y = true -> sample2D F mask undef (Some ov) x y = SVal ov.
Proof.
  intros HwF R C Hm Ho. unfold sample2D. rewrite Ho.
  destruct (corners_wf F 0 0 HwF) as [k Hk]; try lia.
  destruct mask as [M|]; cbn [mask_ok] in Hm.
  - apply andb_true_iff in Hm. destruct Hm as [Hs HwM]. rewrite Hs. cbn [negb].
    unfold same_shape in Hs. rewrite andb_true_iff, !Z.eqb_eq in Hs. destruct Hs as [S1 S2].
    destruct (corners_wf M 0 0 HwM) as [m Hmm]; try lia. rewrite Hmm, Hk. reflexivity.
  - rewrite Hk. reflexivity.
Qed.

Lemma sample2D_outside_raises F mask undef x y :
  match mask with None => true | Some M => same_shape M F end = true ->
  outside F x y = true -> sample2D F mask undef None x y = SOutside.
Proof.
  intros Hm Ho. unfold sample2D. rewrite Ho. destruct mask as [M|]; [rewrite Hm|]; reflexivity.
Qed.

Lemma sample2D_inside_unaffected F mask undef ov x y :
  outside F x y = false -> sample2D F mask undef (Some ov) x y = sample2D F mask undef None x y.
Proof. intro Ho. unfold sample2D. rewrite Ho. reflexivity. Qed.

(** sample2D respects [==] on the position (inside points, no mask) *)
Lemma outside_comp F x y x' y' : x == x' -> y == y' -> outside F x y = outside F x' y'.
Proof.
  intros Hx Hy. destruct (outside F x' y') eqn:E.
  - apply outside_true. apply outside_true in E. rewrite Hx, Hy. exact E.
  - apply outside_false. apply outside_false in E. rewrite Hx, Hy. exact E.
Qed.

Lemma wsum_comp v p q p' q' : p == p' -> q == q' -> wsum v p q == wsum v p' q'.
Proof. intros Hp Hq. unfold wsum. rewrite Hp, Hq. reflexivity. Qed.

Lemma sample2D_comp_inside F undef outv x y x' y' :
  x == x' -> y == y' -> outside F x y = false ->
  sres_eq (sample2D F None undef outv x y) (sample2D F None undef outv x' y').
Proof.
  intros Hx Hy Ho. pose proof Ho as Ho'. rewrite (outside_comp F x y x' y' Hx Hy) in Ho'.
  unfold sample2D. rewrite Ho, Ho'. cbn match.
  rewrite <- (qtrunc_comp x x' Hx), <- (qtrunc_comp y y' Hy).
  destruct outv; (destruct (corners F (qtrunc y) (qtrunc x)); cbn [sres_eq]; [|exact I]);
    rewrite !s2d_nomask; apply wsum_comp; lra.
Qed.

(** * bilin_inv *)
(** the clipped cell index is a cell of an axis with at least two nodes, for ANY position *)
Lemma cell_index_range n x : (2 <= n)%Z -> (0 <= cell_index n x)%Z /\ (cell_index n x + 1 < n)%Z.
Proof. intro H. unfold cell_index, zclip. lia. Qed.
(** inside the axis the clipping does nothing *)
Lemma cell_index_inside n x : 0 <= x -> x < inject_Z (n - 1) -> cell_index n x = qtrunc x.
Proof.
  intros H0 H1. destruct (trunc_cell x n H0 H1) as (A & B & _). unfold cell_index, zclip. lia.
Qed.
Lemma cell_index_comp n x y : x == y -> cell_index n x = cell_index n y.
Proof. intro H. unfold cell_index. rewrite (qtrunc_comp x y H). reflexivity. Qed.

(** every read of one pass is inside the arrays (C17-style): for well-formed arrays of equal shape with
    at least two rows and columns the four nodes exist in F and in G, whatever the iterate (x, y) is *)
Lemma bilin_step_reads_in_bounds F G x y :
  wf_arr F = true -> wf_arr G = true -> same_shape G F = true -> (2 <= nrow F)%Z -> (2 <= ncol F)%Z ->
  let i := cell_index (nrow F) x in let j := cell_index (ncol F) y in
  in_range F i j = true /\ in_range F (i + 1) j = true /\ in_range F i (j + 1) = true /\
  in_range F (i + 1) (j + 1) = true /\
  (exists kf, corners F i j = Some kf) /\ (exists kg, corners G i j = Some kg).
Proof.
  intros WF WG Hs NR NC i j.
  destruct (cell_index_range (nrow F) x NR) as [R0 R1]. destruct (cell_index_range (ncol F) y NC) as [C0 C1].
  fold i in R0, R1. fold j in C0, C1.
  unfold same_shape in Hs. rewrite andb_true_iff, !Z.eqb_eq in Hs. destruct Hs as [S1 S2].
  repeat split; try (apply in_range_iff; lia).
  - apply corners_wf; assumption.
  - apply corners_wf; try assumption; lia.
Qed.

Lemma bilin_step_not_left f g F G tol x y :
  wf_arr F = true -> wf_arr G = true -> same_shape G F = true -> (2 <= nrow F)%Z -> (2 <= ncol F)%Z ->
  bilin_step f g F G tol x y <> StLeft.
Proof.
  intros WF WG Hs NR NC.
  destruct (bilin_step_reads_in_bounds F G x y WF WG Hs NR NC) as (_ & _ & _ & _ & [kf Hf] & [kg Hg]).
  unfold bilin_step. rewrite Hf, Hg.
  destruct (Qlt_bool _ tol); [discriminate|]. destruct (Qeq_bool _ 0); discriminate.
Qed.

Lemma bilin_loop_never_left f g F G tol fuel :
  wf_arr F = true -> wf_arr G = true -> same_shape G F = true -> (2 <= nrow F)%Z -> (2 <= ncol F)%Z ->
  forall x y bx b_y, bilin_loop f g F G tol fuel x y <> BLeft bx b_y.
Proof.
  intros WF WG Hs NR NC. induction fuel as [|k IH]; intros x y bx b_y; cbn [bilin_loop]; [discriminate|].
  pose proof (bilin_step_not_left f g F G tol x y WF WG Hs NR NC) as NL.
  destruct (bilin_step f g F G tol x y); try discriminate; [apply IH|contradiction].
Qed.

Lemma bilin_inv_never_left f g F G maxiter tol bx b_y :
  wf_arr F = true -> wf_arr G = true -> (2 <= nrow F)%Z -> (2 <= ncol F)%Z ->
  bilin_inv f g F G maxiter tol <> BLeft bx b_y.
Proof.
  intros WF WG NR NC. unfold bilin_inv. destruct (same_shape G F) eqn:Hs; cbn [negb]; [|discriminate].
  apply bilin_loop_never_left; assumption.
Qed.

(** T5: a return through the convergence test satisfies the test at the returned point *)
Lemma bilin_step_stop f g F G tol x y : bilin_step f g F G tol x y = StStop -> same_shape G F = true ->
  exists Fs Gs, bil_at F x y = Some Fs /\ bil_at G x y = Some Gs /\ resid2 Fs f Gs g < tol.
Proof.
  unfold bilin_step, bil_at. intros H Hs.
  unfold same_shape in Hs. rewrite andb_true_iff, !Z.eqb_eq in Hs. destruct Hs as [-> ->].
  destruct (corners F _ _) as [kf|]; [|discriminate].
  destruct (corners G _ _) as [kg|]; [|discriminate].
  destruct (Qlt_bool _ tol) eqn:E.
  - apply Qlt_bool_true in E. eauto.
  - destruct (Qeq_bool _ 0); discriminate.
Qed.

Lemma bilin_loop_post f g F G tol fuel : same_shape G F = true -> forall x0 y0 x y,
  bilin_loop f g F G tol fuel x0 y0 = BDone x y true ->
  exists Fs Gs, bil_at F x y = Some Fs /\ bil_at G x y = Some Gs /\ resid2 Fs f Gs g < tol.
Proof.
  intro Hs. induction fuel as [|k IH]; intros x0 y0 x y H; cbn [bilin_loop] in H; [discriminate|].
  destruct (bilin_step f g F G tol x0 y0) eqn:E; try discriminate.
  - injection H as <- <-. apply (bilin_step_stop _ _ _ _ _ _ _ E Hs).
  - apply (IH _ _ _ _ H).
Qed.

Lemma bilin_inv_post f g F G maxiter tol x y :
  bilin_inv f g F G maxiter tol = BDone x y true ->
  exists Fs Gs, bil_at F x y = Some Fs /\ bil_at G x y = Some Gs /\ resid2 Fs f Gs g < tol.
Proof.
  unfold bilin_inv. destruct (same_shape G F) eqn:Hs; cbn [negb]; [|discriminate]. apply bilin_loop_post. exact Hs.
Qed.

(** inside the array the estimate used by the iteration is sample2D with the axes exchanged *)
Lemma bil_at_sample2D A undef outv x y v : bil_at A x y = Some v -> outside A y x = false ->
  exists v', sample2D A None undef outv y x = SVal v' /\ v' == v.
Proof.
  unfold bil_at. intros H Ho. pose proof Ho as Hi. apply outside_false in Hi. destruct Hi as (Y0 & Y1 & X0 & X1).
  rewrite (cell_index_inside _ x X0 X1), (cell_index_inside _ y Y0 Y1) in H.
  destruct (corners A (qtrunc x) (qtrunc y)) as [k|] eqn:Hc; [|discriminate]. injection H as <-.
  eexists. split; [apply (sample2D_inside_nomask A undef outv y x k Ho Hc)|].
  rewrite s2d_nomask. unfold wsum, bil_est, frac. ring.
Qed.

(** T6: affine coordinate arrays *)
Definition affine_arr (A : arr2) (a0 a1 a2 : Q) : Prop :=
  forall r c, in_range A r c = true ->
  exists v, aget A r c = Some v /\ v == a0 + a1 * inject_Z r + a2 * inject_Z c.

Lemma affine_is_bilinear A a0 a1 a2 : affine_arr A a0 a1 a2 -> bilinear_arr A a0 a2 a1 0.
Proof.
  intros H r c Hin. destruct (H r c Hin) as (v & G1 & E). exists v. split; [exact G1|]. rewrite E. ring.
Qed.

(** in ANY cell (r, c) of the array the bilinear estimate of an affine array is the affine function
    itself, also when (x, y) is outside that cell (extrapolation), and the Jacobian entries are exact *)
Lemma affine_cell A a0 a1 a2 r c x y :
  affine_arr A a0 a1 a2 -> (0 <= r)%Z -> (r + 1 < nrow A)%Z -> (0 <= c)%Z -> (c + 1 < ncol A)%Z ->
  exists k, corners A r c = Some k /\
    bil_est k (x - inject_Z r) (y - inject_Z c) == a0 + a1 * x + a2 * y /\
    (forall q, bil_dx k q == a1) /\ (forall p, bil_dy k p == a2).
Proof.
  intros HA R0 R1 C0 C1.
  destruct (HA r c) as (v1 & G1 & E1); [apply in_range_iff; lia|].
  destruct (HA (r + 1)%Z c) as (v2 & G2 & E2); [apply in_range_iff; lia|].
  destruct (HA r (c + 1)%Z) as (v3 & G3 & E3); [apply in_range_iff; lia|].
  destruct (HA (r + 1)%Z (c + 1)%Z) as (v4 & G4 & E4); [apply in_range_iff; lia|].
  rewrite !inject_Z_succ in *.
  exists (Quad v1 v2 v3 v4). split; [apply corners_some; cbn; auto|].
  unfold bil_est, bil_dx, bil_dy. cbn [n00 n01 n10 n11].
  split; [|split; intro]; rewrite E1, E2, E3, E4; ring.
Qed.

Lemma resid2_zero Fs f Gs g : Fs == f -> Gs == g -> resid2 Fs f Gs g == 0.
Proof. intros H1 H2. unfold resid2. rewrite H1, H2. ring. Qed.

(** at the exact pre-image — wherever it is, inside the array or not — the convergence test succeeds *)
Lemma affine_step_at_solution F G a0 a1 a2 b0 b1 b2 f g tol x y :
  affine_arr F a0 a1 a2 -> affine_arr G b0 b1 b2 -> same_shape G F = true -> 0 < tol ->
  (2 <= nrow F)%Z -> (2 <= ncol F)%Z ->
  a0 + a1 * x + a2 * y == f -> b0 + b1 * x + b2 * y == g ->
  bilin_step f g F G tol x y = StStop.
Proof.
  intros HF HG Hs Ht NR NC Ef Eg.
  unfold same_shape in Hs. rewrite andb_true_iff, !Z.eqb_eq in Hs. destruct Hs as [S1 S2].
  destruct (cell_index_range (nrow F) x NR) as [R0 R1]. destruct (cell_index_range (ncol F) y NC) as [C0 C1].
  destruct (affine_cell F a0 a1 a2 _ _ x y HF R0 R1 C0 C1) as (kf & Hkf & EF & _).
  destruct (affine_cell G b0 b1 b2 (cell_index (nrow F) x) (cell_index (ncol F) y) x y HG) as (kg & Hkg & EG & _); try lia.
  unfold bilin_step. rewrite Hkf, Hkg.
  match goal with |- (if Qlt_bool ?h tol then _ else _) = _ => assert (Qlt_bool h tol = true) as -> end.
  { apply Qlt_bool_true. rewrite resid2_zero; [exact Ht|rewrite EF; exact Ef|rewrite EG; exact Eg]. }
  reflexivity.
Qed.

(** one Newton pass from ANY iterate (x, y) either stops or lands on the exact pre-image (xs, ys) *)
Lemma newton_affine_step F G a0 a1 a2 b0 b1 b2 f g tol x y xs ys :
  affine_arr F a0 a1 a2 -> affine_arr G b0 b1 b2 -> same_shape G F = true ->
  ~ a1 * b2 - a2 * b1 == 0 -> (2 <= nrow F)%Z -> (2 <= ncol F)%Z ->
  f == a0 + a1 * xs + a2 * ys -> g == b0 + b1 * xs + b2 * ys ->
  bilin_step f g F G tol x y = StStop \/
  exists x' y', bilin_step f g F G tol x y = StNext x' y' /\ x' == xs /\ y' == ys.
Proof.
  intros HF HG Hs Hd NR NC Ef Eg.
  unfold same_shape in Hs. rewrite andb_true_iff, !Z.eqb_eq in Hs. destruct Hs as [S1 S2].
  destruct (cell_index_range (nrow F) x NR) as [R0 R1]. destruct (cell_index_range (ncol F) y NC) as [C0 C1].
  destruct (affine_cell F a0 a1 a2 _ _ x y HF R0 R1 C0 C1) as (kf & Hkf & EF & EFx & EFy).
  destruct (affine_cell G b0 b1 b2 (cell_index (nrow F) x) (cell_index (ncol F) y) x y HG)
    as (kg & Hkg & EG & EGx & EGy); try lia.
  unfold bilin_step. rewrite Hkf, Hkg.
  destruct (Qlt_bool _ tol); [left; reflexivity|right].
  set (p := x - inject_Z (cell_index (nrow F) x)) in *. set (q := y - inject_Z (cell_index (ncol F) y)) in *.
  assert (bil_dx kf q * bil_dy kg p - bil_dy kf p * bil_dx kg q == a1 * b2 - a2 * b1) as Edet
    by (rewrite EFx, EFy, EGx, EGy; reflexivity).
  destruct (Qeq_bool _ 0) eqn:E.
  - apply Qeq_bool_iff in E. rewrite Edet in E. contradiction.
  - do 2 eexists. split; [reflexivity|].
    rewrite !Qred_correct, EF, EG, EFx, EFy, EGx, EGy, Ef, Eg. split; field; exact Hd.
Qed.

Lemma newton_affine_loop F G a0 a1 a2 b0 b1 b2 f g tol k x y xs ys :
  affine_arr F a0 a1 a2 -> affine_arr G b0 b1 b2 -> same_shape G F = true ->
  ~ a1 * b2 - a2 * b1 == 0 -> 0 < tol -> (2 <= nrow F)%Z -> (2 <= ncol F)%Z ->
  f == a0 + a1 * xs + a2 * ys -> g == b0 + b1 * xs + b2 * ys ->
  exists x' y', bilin_loop f g F G tol (S (S k)) x y = BDone x' y' true /\
                ((x' == xs /\ y' == ys) \/ (x' = x /\ y' = y)).
Proof.
  intros HF HG Hs Hd Ht NR NC Ef Eg.
  cbn [bilin_loop].
  destruct (newton_affine_step F G a0 a1 a2 b0 b1 b2 f g tol x y xs ys HF HG Hs Hd NR NC Ef Eg)
    as [E|(x1 & y1 & E & Ex & Ey)]; rewrite E.
  - exists x, y. split; [reflexivity|right; split; reflexivity].
  - exists x1, y1. split; [|left; split; assumption].
    rewrite (affine_step_at_solution F G a0 a1 a2 b0 b1 b2 f g tol x1 y1 HF HG Hs Ht NR NC); try reflexivity.
    + rewrite Ex, Ey, Ef. reflexivity.
    + rewrite Ex, Ey, Eg. reflexivity.
Qed.

(** the inverse on an affine pair, for ANY requested (f, g) = image of (xs, ys), inside the array or not *)
Lemma bilin_inv_affine F G a0 a1 a2 b0 b1 b2 f g tol maxiter xs ys :
  affine_arr F a0 a1 a2 -> affine_arr G b0 b1 b2 -> same_shape G F = true ->
  ~ a1 * b2 - a2 * b1 == 0 -> 0 < tol -> (2 <= nrow F)%Z -> (2 <= ncol F)%Z -> (2 <= maxiter)%Z ->
  f == a0 + a1 * xs + a2 * ys -> g == b0 + b1 * xs + b2 * ys ->
  exists x' y', bilin_inv f g F G maxiter tol = BDone x' y' true /\
                ((x' == xs /\ y' == ys) \/ (x' = fst (bilin_start F) /\ y' = snd (bilin_start F))).
Proof.
  intros HF HG Hs Hd Ht NR NC HM Ef Eg. unfold bilin_inv. rewrite Hs. cbn [negb].
  replace (Z.to_nat maxiter) with (S (S (Z.to_nat (maxiter - 2)))) by lia.
  apply (newton_affine_loop F G a0 a1 a2 b0 b1 b2); assumption.
Qed.

Lemma default_tol_pos : 0 < default_tol.
Proof. reflexivity. Qed.

(** * Grid level: xy2ll, ll2xy *)
Lemma inject_Z_sub a b : inject_Z (a - b) == inject_Z a - inject_Z b.
Proof. unfold Zminus. rewrite inject_Z_plus, inject_Z_opp. reflexivity. Qed.

(** T5 at grid level: when ll2xy returns through the convergence test a position inside the loaded
    grid, that position has interpolated lon/lat within the tolerance of the requested ones *)
Lemma ll2xy_post g lon lat X Y :
  ll2xy g lon lat = BDone X Y true -> same_shape (glat g) (glon g) = true ->
  outside (glon g) (X - inject_Z (gi0 g)) (Y - inject_Z (gj0 g)) = false ->
  exists lo la, xy2ll g X Y = (SVal lo, SVal la) /\ resid2 lo lon la lat < default_tol.
Proof.
  unfold ll2xy. intros H Hs Ho.
  destruct (bilin_inv lon lat (glon g) (glat g) default_maxiter default_tol) as [y x t| | |] eqn:E;
    try discriminate.
  injection H as <- <- ->.
  destruct (bilin_inv_post _ _ _ _ _ _ _ _ E) as (Fs & Gs & HF & HG & Hr).
  assert (x + inject_Z (gi0 g) - inject_Z (gi0 g) == x) as Ex by ring.
  assert (y + inject_Z (gj0 g) - inject_Z (gj0 g) == y) as Ey by ring.
  pose proof Hs as Hs'. unfold same_shape in Hs'. rewrite andb_true_iff, !Z.eqb_eq in Hs'. destruct Hs' as [S1 S2].
  assert (outside (glat g) (x + inject_Z (gi0 g) - inject_Z (gi0 g)) (y + inject_Z (gj0 g) - inject_Z (gj0 g)) = false) as Ho'
    by (unfold outside in *; rewrite S1, S2; exact Ho).
  pose proof Ho as O1. rewrite (outside_comp (glon g) _ _ _ _ Ex Ey) in O1.
  pose proof Ho' as O2. rewrite (outside_comp (glat g) _ _ _ _ Ex Ey) in O2.
  destruct (bil_at_sample2D (glon g) 0 None y x Fs HF O1) as (lo & L1 & E1).
  destruct (bil_at_sample2D (glat g) 0 None y x Gs HG O2) as (la & L2 & E2).
  pose proof (sample2D_comp_inside (glon g) 0 None _ _ _ _ Ex Ey Ho) as C1.
  pose proof (sample2D_comp_inside (glat g) 0 None _ _ _ _ Ex Ey Ho') as C2.
  rewrite L1 in C1. rewrite L2 in C2. unfold xy2ll.
  destruct (sample2D (glon g) None 0 None (x + inject_Z (gi0 g) - inject_Z (gi0 g)) _) as [lo'| | |]; try contradiction.
  destruct (sample2D (glat g) None 0 None (x + inject_Z (gi0 g) - inject_Z (gi0 g)) _) as [la'| | |]; try contradiction.
  cbn [sres_eq] in C1, C2. exists lo', la'. split; [reflexivity|].
  unfold resid2 in *. rewrite C1, C2, E1, E2. exact Hr.
Qed.

(** T6 at grid level: on an affine, non-degenerate coordinate pair the round trip is exact, unless the
    requested lon/lat already pass the convergence test at the initial guess (the array centre), in which
    case the centre is returned (and [ll2xy_post] applies to it). *)
Lemma ll2xy_xy2ll_affine g a0 a1 a2 b0 b1 b2 X Y :
  affine_arr (glon g) a0 a1 a2 -> affine_arr (glat g) b0 b1 b2 -> same_shape (glat g) (glon g) = true ->
  ~ a1 * b2 - a2 * b1 == 0 -> (2 <= nrow (glon g))%Z -> (2 <= ncol (glon g))%Z ->
  outside (glon g) (X - inject_Z (gi0 g)) (Y - inject_Z (gj0 g)) = false ->
  exists lo la X' Y',
    xy2ll g X Y = (SVal lo, SVal la) /\ ll2xy g lo la = BDone X' Y' true /\
    ((X' == X /\ Y' == Y) \/
     (X' = snd (bilin_start (glon g)) + inject_Z (gi0 g) /\ Y' = fst (bilin_start (glon g)) + inject_Z (gj0 g))).
Proof.
  intros HF HG Hs Hd NR NC Ho.
  pose proof Hs as Hs'. unfold same_shape in Hs'. rewrite andb_true_iff, !Z.eqb_eq in Hs'. destruct Hs' as [S1 S2].
  assert (outside (glat g) (X - inject_Z (gi0 g)) (Y - inject_Z (gj0 g)) = false) as Ho'
    by (unfold outside in *; rewrite S1, S2; exact Ho).
  destruct (sample2D_bilinear_exact _ _ _ _ _ 0 None _ _ (affine_is_bilinear _ _ _ _ HF) Ho) as (lo & L1 & L2).
  destruct (sample2D_bilinear_exact _ _ _ _ _ 0 None _ _ (affine_is_bilinear _ _ _ _ HG) Ho') as (la & M1 & M2).
  set (x := X - inject_Z (gi0 g)) in *. set (y := Y - inject_Z (gj0 g)) in *.
  destruct (bilin_inv_affine (glon g) (glat g) a0 a1 a2 b0 b1 b2 lo la default_tol default_maxiter y x
              HF HG Hs Hd default_tol_pos NR NC) as (x' & y' & EL & Alt).
  { unfold default_maxiter. lia. }
  { rewrite L2. ring. }
  { rewrite M2. ring. }
  exists lo, la, (y' + inject_Z (gi0 g)), (x' + inject_Z (gj0 g)).
  split; [unfold xy2ll; fold x; fold y; rewrite L1, M1; reflexivity|].
  split.
  - unfold ll2xy. rewrite EL. reflexivity.
  - destruct Alt as [[E1 E2]|[E1 E2]]; [left|right].
    + split; [rewrite E2|rewrite E1]; [unfold x|unfold y]; ring.
    + rewrite E1, E2. split; reflexivity.
Qed.

(** T7: sampling the sliced array at the shifted position = sampling the full array at the position *)
Lemma corners_asub A r0 r1 c0 c1 r c :
  wf_arr A = true -> (0 <= r0)%Z -> (r1 <= nrow A)%Z -> (0 <= c0)%Z -> (c1 <= ncol A)%Z ->
  (0 <= r)%Z -> (r + 1 < r1 - r0)%Z -> (0 <= c)%Z -> (c + 1 < c1 - c0)%Z ->
  corners (asub A r0 r1 c0 c1) r c = corners A (r0 + r) (c0 + c).
Proof.
  intros Hwf H1 H2 H3 H4 R0 R1 C0 C1. unfold corners.
  rewrite !aget_asub by (assumption || lia). rewrite !Z.add_assoc. reflexivity.
Qed.

Lemma sample2D_asub A r0 r1 c0 c1 undef outv x y :
  wf_arr A = true -> (0 <= r0)%Z -> (r1 <= nrow A)%Z -> (0 <= c0)%Z -> (c1 <= ncol A)%Z ->
  inject_Z c0 <= x -> x < inject_Z (c1 - 1) -> inject_Z r0 <= y -> y < inject_Z (r1 - 1) ->
  sres_eq (sample2D (asub A r0 r1 c0 c1) None undef outv (x - inject_Z c0) (y - inject_Z r0))
          (sample2D A None undef outv x y).
Proof.
  intros Hwf H1 H2 H3 H4 X0 X1 Y0 Y1.
  assert (0 <= inject_Z c0) as Pc by (change 0 with (inject_Z 0); rewrite <- Zle_Qle; exact H3).
  assert (0 <= inject_Z r0) as Pr by (change 0 with (inject_Z 0); rewrite <- Zle_Qle; exact H1).
  assert (inject_Z (c1 - 1) <= inject_Z (ncol A - 1)) as Uc by (rewrite <- Zle_Qle; lia).
  assert (inject_Z (r1 - 1) <= inject_Z (nrow A - 1)) as Ur by (rewrite <- Zle_Qle; lia).
  assert (outside A x y = false) as Ho by (apply outside_false; repeat split; lra).
  assert (outside (asub A r0 r1 c0 c1) (x - inject_Z c0) (y - inject_Z r0) = false) as Hos.
  { apply outside_false. rewrite nrow_asub, ncol_asub.
    replace (c1 - c0 - 1)%Z with ((c1 - 1) - c0)%Z by lia. replace (r1 - r0 - 1)%Z with ((r1 - 1) - r0)%Z by lia.
    rewrite !inject_Z_sub in *. repeat split; lra. }
  pose proof Hos as Hi. apply outside_false in Hi. destruct Hi as (SX0 & SX1 & SY0 & SY1).
  destruct (trunc_cell _ _ SX0 SX1) as (A1 & A2 & _). destruct (trunc_cell _ _ SY0 SY1) as (B1 & B2 & _).
  rewrite nrow_asub in B2. rewrite ncol_asub in A2.
  assert (qtrunc (x - inject_Z c0) = (qtrunc x - c0)%Z) as Tx
    by (rewrite !qtrunc_nonneg by lra; apply qfloor_shift).
  assert (qtrunc (y - inject_Z r0) = (qtrunc y - r0)%Z) as Ty
    by (rewrite !qtrunc_nonneg by lra; apply qfloor_shift).
  pose proof (corners_asub A r0 r1 c0 c1 _ _ Hwf H1 H2 H3 H4 B1 B2 A1 A2) as Hc.
  rewrite Tx, Ty in Hc.
  replace (r0 + (qtrunc y - r0))%Z with (qtrunc y) in Hc by lia.
  replace (c0 + (qtrunc x - c0))%Z with (qtrunc x) in Hc by lia.
  destruct (inside_cell A x y Hwf Ho) as (k & Hk & _).
  rewrite Hk in Hc. rewrite <- Tx, <- Ty in Hc.
  rewrite (sample2D_inside_nomask _ undef outv _ _ k Hos Hc).
  rewrite (sample2D_inside_nomask A undef outv x y k Ho Hk). cbn [sres_eq].
  rewrite !s2d_nomask. apply wsum_comp; unfold frac; rewrite ?Tx, ?Ty, inject_Z_sub; ring.
Qed.

Lemma xy2ll_full_arrays LON LAT i0 i1 j0 j1 X Y :
  wf_arr LON = true -> wf_arr LAT = true -> same_shape LAT LON = true ->
  (0 <= i0)%Z -> (i1 <= ncol LON)%Z -> (0 <= j0)%Z -> (j1 <= nrow LON)%Z ->
  inject_Z i0 <= X -> X < inject_Z (i1 - 1) -> inject_Z j0 <= Y -> Y < inject_Z (j1 - 1) ->
  sres_eq (fst (xy2ll (load_grid LON LAT i0 i1 j0 j1) X Y)) (sample2D LON None 0 None X Y) /\
  sres_eq (snd (xy2ll (load_grid LON LAT i0 i1 j0 j1) X Y)) (sample2D LAT None 0 None X Y).
Proof.
  intros W1 W2 Hs I0 I1 J0 J1 X0 X1 Y0 Y1.
  unfold same_shape in Hs. rewrite andb_true_iff, !Z.eqb_eq in Hs. destruct Hs as [S1 S2].
  unfold xy2ll, load_grid. cbn [fst snd gi0 gj0 glon glat].
  split; apply sample2D_asub; try assumption; lia.
Qed.

(** tabulated arrays satisfy the hypotheses used above (for the non-vacuity examples) *)
Lemma atab_bilinear nr nc a b c d :
  bilinear_arr (atab nr nc (fun r cc => a + b * inject_Z cc + c * inject_Z r + d * inject_Z cc * inject_Z r)) a b c d.
Proof.
  intros r cc Hin. apply in_range_iff in Hin. cbn [atab nrow ncol] in Hin.
  eexists. split; [apply aget_atab; lia|reflexivity].
Qed.
Lemma atab_affine nr nc a0 a1 a2 :
  affine_arr (atab nr nc (fun r c => a0 + a1 * inject_Z r + a2 * inject_Z c)) a0 a1 a2.
Proof.
  intros r c Hin. apply in_range_iff in Hin. cbn [atab nrow ncol] in Hin.
  eexists. split; [apply aget_atab; lia|reflexivity].
Qed.
