(** The output cursor machine of a warm-started run (skip_initial: the record of step 0 is in the
    restart file; main's loop covers steps 1 .. N-1): C07's theorem for restarted runs, used by C08. *)
From Coq Require Import ZArith List Bool Lia.
From Ladim Require Import Base.Num Model.State Model.Output Proofs.StateProofs Proofs.OutputProofs Proofs.RestartCountProofs.
Import ListNotations.
Open Scope Z_scope.

Section W.
  Variables R P : Type.
  Variable snap : Z -> R.
  Variable pvs : Z -> P.

  Definition out_run_warm (nsteps p numrec : Z) : ost R P :=
    finish R P (fold_left (out_update R P snap pvs p) (zrange 1 nsteps) (out_init R P nsteps p numrec true)).

  Lemma init_inv_warm nsteps p numrec : 1 <= nsteps -> 0 < p -> 0 <= numrec ->
    Inv R P (out_init R P nsteps p numrec true) 0 /\ total (out_init R P nsteps p numrec true) = cdiv nsteps p - 1.
  Proof.
    intros Hn Hp Hr. pose proof (cdiv_spec nsteps p Hp) as CS.
    assert (1 <= cdiv nsteps p) as C1 by nia.
    unfold Inv, out_init. cbn. rewrite !Z.sub_0_r.
    assert (1 <= (if numrec =? 0 then 999999 else numrec)) as N1.
    { destruct (numrec =? 0) eqn:E; [lia|]. apply Z.eqb_neq in E. lia. }
    repeat split; try lia; try constructor.
  Qed.

  Theorem warm_records_written nsteps p numrec :
    1 <= nsteps -> 1 <= p -> 0 <= numrec -> (numrec = 0 -> cdiv nsteps p <= 999999) ->
    let s := out_run_warm nsteps p numrec in
    err s = false /\
    Forall (fun f : file R P => closed f = true) (files s) /\
    all_records s = map snap (filter (fun k => k mod p =? 0) (zrange 1 nsteps)) /\
    (1 < cdiv nsteps p -> pv (cur s) <> None).
  Proof.
    intros Hn Hp Hr Hbig s.
    destruct (init_inv_warm nsteps p numrec Hn ltac:(lia) Hr) as [I0 T0].
    pose proof (warm_record_count nsteps p ltac:(lia) ltac:(lia)) as DL.
    pose proof (run_inv R P snap pvs p (zrange 1 nsteps) _ 0 I0 ltac:(rewrite T0; lia)) as RI. cbv zeta in RI.
    destruct RI as (I & AR & T & NR).
    set (s1 := fold_left (out_update R P snap pvs p) (zrange 1 nsteps) (out_init R P nsteps p numrec true)) in *.
    destruct I as (E & RC & J & N1 & L & D & JJ & F & FN & A & B).
    destruct (finish_props R P s1) as (FC & FD & FR & FE & FF).
    subst s. unfold out_run_warm. fold s1.
    split; [rewrite FE; exact E|]. split; [|split].
    - unfold files. apply Forall_app. split.
      + rewrite FD. eapply Forall_impl; [|exact D]. cbn. tauto.
      + constructor; [exact FC|constructor].
    - rewrite finish_records, AR. reflexivity.
    - intro POS. destruct (B ltac:(lia) ltac:(lia)) as (_ & X & Y).
      unfold finish. destruct (closed (cur s1)); exact X.
  Qed.
End W.
