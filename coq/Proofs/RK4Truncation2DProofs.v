(** Local truncation error of the CLASSICAL RK4 scheme in TWO space dimensions, for arbitrary
    TIME-DEPENDENT C4 velocity fields (u, v) (t, x, y), by Taylor's theorem in three variables; and
    hence COMPLETE fourth-order convergence of the 2-D RK4 scheme of GeneralConvergence2DProofs.v,
    whose RK4_2d_converges_order4 keeps the local truncation bound C ht^5 (in the max-norm norm2) as
    a HYPOTHESIS.  This file discharges it.

    ACHIEVED: the FULL class of the task (time-dependent, coupled, non-linear 2-D fields; no
    fall-back), for equal steps AND for metric factors hx, hy, ht, plus the rational-model theorem
    and a closed example.  (RK4NonAutonomousProofs.v is the scalar template, RK2Truncation2DProofs.v
    the 2-D plumbing template.)

    SMOOTHNESS.  The two components are given with their partial derivatives as FAMILIES
        U V : ffam = nat -> nat -> nat -> R -> R -> R -> R,   U i j l = d_t^i d_x^j d_y^l u,  u = U 0 0 0,
    indexed by the NUMBER of derivatives in each variable (so the symmetry of the mixed partials,
    which holds for every C4 field by Schwarz, is carried by the indexing), with
        smooth4 K  := forall i j l t x y, i + j + l < 4 ->
                        D3 (K i j l) t x y (K (S i) j l t x y) (K i (S j) l t x y) (K i j (S l) t x y)
                      (D3 = Frechet differentiability in (t, x, y), RK2Truncation2DProofs.v)
        bounded4 (nBd B0 B1 B2 B3 B4) K := forall i j l t x y, i + j + l <= 4 ->
                        Rabs (K i j l t x y) <= nBd B0 B1 B2 B3 B4 (i + j + l)
    i.e. bounds lumped per total order, the SAME B0..B4 for both components (B0 bounds |u| and |v|,
    Bm every partial derivative of total order m of u and of v), globally in (t, x, y) as in
    RK2Truncation2DProofs.v.  The exact solution sol : R -> pt is GIVEN on the closed interval:
        forall t, t0 <= t <= t0 + T -> is_derive (fun r => fst (sol r)) t (u t (fst (sol t)) (snd (sol t)))
        forall t, t0 <= t <= t0 + T -> is_derive (fun r => snd (sol r)) t (v t (fst (sol t)) (snd (sol t)))
    (two-sided derivatives also at the end points); its derivatives of order 2..5 are DERIVED.

    CONSTANT.  With N = 1 + 2 B0 (l1-norm of the augmented velocity (1, u, v) of the autonomous
    system (t, x, y)' = (1, u, v)),
        C_RK4_2d B0 B1 B2 B3 B4 = C_RK4a N (2 B1) (2 B2) (2 B3) (2 B4) / 2
          = N B1^4/15 + 47/60 N^2 B1^2 B2 + 31/240 N^3 B2^2 + 169/720 N^3 B1 B3 + 49/2880 N^4 B4
    (C_RK4a is the constant of the autonomous scalar case, RK4TruncationProofs.v; the factors 2 are
    the l1-operator norms of the derivatives of the two-component field, the final 1/2 because the
    outermost derivative is that of ONE component).  Lipschitz constant in norm2: L_2d B1 B1 B1 B1
    (= 2 B1).  For metric factors a = hx/ht, b = hy/ht all bounds are scaled by max a b:
        C_RK4_2d_metric a b B0 .. B4 = C_RK4_2d (max a b * B0) .. (max a b * B4).

    MAIN THEOREMS (Section Plane4; f = field2 (U 0 0 0) (V 0 0 0))
      RK4_local_truncation_2d    0 < h, t0 <= s, s + h <= t0 + T  (for ALL h > 0, no smallness):
          norm2 (sol (s+h) - sol s - h * Phi_RK4_2d f h h h s (sol s)) <= C_RK4_2d B0..B4 * h^5
      RK4_converges_general_2d   (COMPLETE, no truncation hypothesis)  0 < h, INR n * h = T:
          norm2 (one_step_iter2 (Phi_RK4_2d f h h h) h h h t0 n (sol t0) - sol (t0 + T))
            <= exp (T * Lip_RK4 h (L_2d B1 B1 B1 B1)) * T * C_RK4_2d B0..B4 * h^4
      RK4_converges_general_2d_uniform: the same with Lip_RK4 hmax for h <= hmax.
      RK4_local_truncation_2d_metric, RK4_converges_general_2d_metric (+ _uniform): steps hx, hy, ht,
          the scheme integrates x' = hx/ht u, y' = hy/ht v; constant C_RK4_2d_metric (hx/ht) (hy/ht),
          stability factor exp (T * (max hx hy / ht * Lip_RK4 (max hx hy) L)).
      model_RK4_converges_general_2d: n steps of the rational model Tracker.rk_iter with tab_RK4, both
          coordinates, velocity oracle agreeing with (u, v) through Q2R at the stage times (mirrors
          model_RK2_converges_general_2d).
      RK4_2d_example_coupled (closed, no hypotheses but 0 < h, n h = T): u = cos t + sin (x - y),
          v = cos t - sin (x - y), exact solution (sin t + atan (exp (2t)), sin t - atan (exp (2t)))
          from (PI/4, -PI/4); family exF p (p = 0, 1), B0 = 2, B1..B4 = 1:
          error <= exp (T * Lip_RK4 h 2) * T * (14599/192) * h^4;
      RK4_2d_local_example_coupled: one-step error <= 14599/192 h^5 for all s >= 0, h > 0.

    HOW.  Part 0: a [fam] is the table of partial derivatives at a point; [dd d0 d1 d2 K] the table
    of the directional derivative, so an m-linear derivative form applied to m vectors is an m-fold
    composition of dd, symmetric by construction; [fbound] + tactic [bnd] bound such forms by
    Bm * product of l1-norms.  Part 1 (Section RK4Alg2D, plain reals): with the Taylor remainders
    of the stages as DEFINED quantities (orders 0..2 of U, V at stages 2, 3; order 3 of the component
    k at stages 2, 3, 4), rk4_2d_combination is ONE polynomial identity (by field; the order
    conditions of RK4 for systems enter here) writing h * (k1 + 2 k2 + 2 k3 + k4)/6 as
    h Z1 + h^2/2 Z2 + h^3/6 Z3 + h^4/24 Z4 + h/6 (2 r2 + 2 R3 + R4), Zm the elementary differentials
    GF1..GF3 (Faa di Bruno in the derivatives of the curve); remainders bounded homogeneously of
    degree 4 in h (E_RK4_2d), C_RK4_2d_eq: M5 h^5/120 + E_RK4_2d = C_RK4_2d h^5.  Part 2 (Section
    Segment): r |-> K (p + r d) has m-th derivative ddn d m (seg_fder, by induction, all orders at
    once), Taylor-Lagrange on [0,1]: taylor3_k0..k3.  Part 3 (Section FaaDiBruno): GF1..GF3 are
    differentiated structurally (fder_dd = Leibniz rule for dd) giving GF2..GF4.  Part 4 (Section
    Core4 / Component4, generic component Z' = K (t, X, Y), instantiated twice): derivative ladder
    of the solution (sx2..sx4, sz2..sz5), Taylor-Lagrange of order 4 for Z, assembly on the open
    interval (component_truncation_open4), end steps of the closed interval by shrinking
    (closed_component_bound4, tactic exd for differentiability of the shrunk step).  Part 5: both
    components, metric scaling (scf), the Lax-type theorem, the rational model.  Part 6: example.

    WHAT REMAINS A HYPOTHESIS: existence of the exact solution (given, not constructed); GLOBAL (all
    t, x, y) differentiability and boundedness of the partial derivatives up to order 4, with bounds
    lumped per total order and shared by the two components; constant hx, hy along the trajectory;
    for the model theorem, agreement of the rational oracle with (u, v) at every stage (as in
    GeneralConvergence2DProofs.v), no clipping.  The example has hx = hy = ht (the equal-step
    theorems are derived from the metric ones, so it instantiates those too).
    Nothing is admitted; no axioms beyond those of the standard-library reals / Coquelicot
    (Print Assumptions at the end). *)
From Coq Require Import Reals Lra Lia Psatz QArith Qreals.
From Coquelicot Require Import Coquelicot.
From Ladim Require Import Model.Tracker Proofs.ConvergenceProofs Proofs.GeneralConvergenceProofs
  Proofs.RK2TruncationProofs Proofs.RK4TruncationProofs Proofs.RK4NonAutonomousProofs
  Proofs.GeneralConvergence2DProofs Proofs.RK2Truncation2DProofs.
Open Scope R_scope.

(** * Part 0: jets.  A [fam] is the table of the partial derivatives of a function of (t, x, y) at
    one point, indexed by the NUMBER of derivatives taken in each variable (so the symmetry of the
    mixed partials is built in).  [dd d0 d1 d2 K] is the table of the derivatives of the
    directional derivative in the direction (d0, d1, d2): an m-linear form applied to m vectors is
    an m-fold composition of [dd]. *)
Definition fam := nat -> nat -> nat -> R.
Definition dd (d0 d1 d2 : R) (K : fam) : fam :=
  fun i j l => d0 * K (S i) j l + d1 * K i (S j) l + d2 * K i j (S l).
Definition fplus (F G : fam) : fam := fun i j l => F i j l + G i j l.
Definition fscal (c : R) (F : fam) : fam := fun i j l => c * F i j l.

(** the derivatives of order 1..4 of s |-> K (s, X s, Y s) in terms of the jet J of K and of the
    derivatives (1, x1, y1), (0, x2, y2), ... of the curve (Faa di Bruno) *)
Definition GF1 (J : fam) (x1 y1 : R) : fam := dd 1 x1 y1 J.
Definition GF2 (J : fam) (x1 y1 x2 y2 : R) : fam :=
  fplus (dd 1 x1 y1 (dd 1 x1 y1 J)) (dd 0 x2 y2 J).
Definition GF3 (J : fam) (x1 y1 x2 y2 x3 y3 : R) : fam :=
  fplus (fplus (dd 1 x1 y1 (dd 1 x1 y1 (dd 1 x1 y1 J))) (fscal 3 (dd 1 x1 y1 (dd 0 x2 y2 J))))
        (dd 0 x3 y3 J).
Definition GF4 (J : fam) (x1 y1 x2 y2 x3 y3 x4 y4 : R) : fam :=
  fplus (fplus (fplus (fplus (dd 1 x1 y1 (dd 1 x1 y1 (dd 1 x1 y1 (dd 1 x1 y1 J))))
                             (fscal 6 (dd 1 x1 y1 (dd 1 x1 y1 (dd 0 x2 y2 J)))))
                      (fscal 3 (dd 0 x2 y2 (dd 0 x2 y2 J))))
               (fscal 4 (dd 1 x1 y1 (dd 0 x3 y3 J))))
        (dd 0 x4 y4 J).

(** bounds lumped per total order: [fbound Bd K c s] says that the entries of K of order n are
    bounded by c * Bd (n + s) (s = number of directional derivatives already taken) *)
Definition fbound (Bd : nat -> R) (K : fam) (c : R) (s : nat) : Prop :=
  forall i j l, (i + j + l + s <= 4)%nat -> Rabs (K i j l) <= c * Bd (i + j + l + s)%nat.

Lemma dd_fbound (Bd : nat -> R) (K : fam) (c : R) (s : nat) (d0 d1 d2 D0 D1 D2 : R) :
  fbound Bd K c s -> Rabs d0 <= D0 -> Rabs d1 <= D1 -> Rabs d2 <= D2 ->
  fbound Bd (dd d0 d1 d2 K) (c * (D0 + D1 + D2)) (S s).
Proof.
  intros HK H0 H1 H2 i j l Hijl. unfold dd.
  pose proof (HK (S i) j l ltac:(lia)) as K0.
  pose proof (HK i (S j) l ltac:(lia)) as K1.
  pose proof (HK i j (S l) ltac:(lia)) as K2.
  replace (S i + j + l + s)%nat with (i + j + l + S s)%nat in K0 by lia.
  replace (i + S j + l + s)%nat with (i + j + l + S s)%nat in K1 by lia.
  replace (i + j + S l + s)%nat with (i + j + l + S s)%nat in K2 by lia.
  set (b := c * Bd (i + j + l + S s)%nat) in *.
  eapply Rle_trans.
  apply Rabs_plus_le. apply Rabs_plus_le.
  apply Rabs_mult_le; eassumption. apply Rabs_mult_le; eassumption. apply Rabs_mult_le; eassumption.
  apply Req_le. unfold b. ring.
Qed.

Lemma fbound_eval (Bd : nat -> R) (K : fam) (c : R) (s : nat) :
  fbound Bd K c s -> (s <= 4)%nat -> Rabs (K O O O) <= c * Bd s.
Proof. intros HK Hs. apply (HK O O O). simpl. exact Hs. Qed.

Lemma dd_bound0 (Bd : nat -> R) (K : fam) (c : R) (s : nat) (d0 d1 d2 D0 D1 D2 : R) :
  fbound Bd K c s -> Rabs d0 <= D0 -> Rabs d1 <= D1 -> Rabs d2 <= D2 -> (S s <= 4)%nat ->
  Rabs (dd d0 d1 d2 K O O O) <= c * (D0 + D1 + D2) * Bd (S s).
Proof.
  intros HK H0 H1 H2 Hs.
  apply (fbound_eval Bd _ _ (S s) (dd_fbound Bd K c s d0 d1 d2 D0 D1 D2 HK H0 H1 H2) Hs).
Qed.

Lemma fplus_bound0 (F G : fam) (A B : R) :
  Rabs (F O O O) <= A -> Rabs (G O O O) <= B -> Rabs (fplus F G O O O) <= A + B.
Proof. intros HF HG. unfold fplus. apply Rabs_plus_le; assumption. Qed.
Lemma fscal_bound0 (c : R) (F : fam) (A : R) :
  0 <= c -> Rabs (F O O O) <= A -> Rabs (fscal c F O O O) <= c * A.
Proof. intros Hc HF. unfold fscal. apply Rabs_mult_le. apply Rabs_const_le. exact Hc. exact HF. Qed.

(** structural bounding of expressions built from +, *, [dd .. O O O], [fplus], [fscal]; atoms by
    hypotheses [Rabs x <= X], non-negative constants by [Rabs c <= c]; instantiates the bound *)
Ltac bnd :=
  match goal with
  | |- Rabs (_ + _) <= _ => eapply Rabs_plus_le; bnd
  | |- Rabs (_ * _) <= _ => eapply Rabs_mult_le; bnd
  | |- Rabs (fplus _ _ O O O) <= _ => eapply fplus_bound0; bnd
  | |- Rabs (fscal _ _ O O O) <= _ => eapply fscal_bound0; [lra | bnd]
  | |- Rabs (dd _ _ _ _ O O O) <= _ => eapply dd_bound0; [fbnd | bnd | bnd | bnd | lia]
  | |- Rabs _ <= _ => eassumption
  | |- Rabs _ <= _ => eapply Rabs_const_le; lra
  end
with fbnd :=
  match goal with
  | |- fbound _ (dd _ _ _ _) _ _ => eapply dd_fbound; [fbnd | bnd | bnd | bnd]
  | |- fbound _ _ _ _ => eassumption
  end.

(** Taylor polynomials of order 1, 2, 3 of a function with jet K, increment (d0, d1, d2) *)
Definition tp1 (K : fam) (d0 d1 d2 : R) : R := K O O O + dd d0 d1 d2 K O O O.
Definition tp2 (K : fam) (d0 d1 d2 : R) : R :=
  tp1 K d0 d1 d2 + dd d0 d1 d2 (dd d0 d1 d2 K) O O O * / 2.
Definition tp3 (K : fam) (d0 d1 d2 : R) : R :=
  tp2 K d0 d1 d2 + dd d0 d1 d2 (dd d0 d1 d2 (dd d0 d1 d2 K)) O O O * / 6.

(** * Part 1: the algebra of one RK4 step of the system (t, x, y)' = (1, U, V), for the component
    with right-hand side k, over plain reals.  kf, uf, vf are the jets of k, U, V at the base point;
    K2, K3, K4, U2, U3, V2, V3 the stage values; all remainders are DEFINED as differences. *)
Section RK4Alg2D.
  Variables kf uf vf : fam.
  Variables h K2 K3 K4 U2 U3 V2 V3 : R.
  Variables B0 B1 B2 B3 B4 : R.
  Notation Bd := (nBd B0 B1 B2 B3 B4).
  Hypothesis Hh : 0 < h.
  Hypothesis Hkf : fbound Bd kf 1 0.
  Hypothesis Huf : fbound Bd uf 1 0.
  Hypothesis Hvf : fbound Bd vf 1 0.
  Hypothesis HU2 : Rabs U2 <= B0.
  Hypothesis HV2 : Rabs V2 <= B0.
  Hypothesis HU3 : Rabs U3 <= B0.
  Hypothesis HV3 : Rabs V3 <= B0.

  Let a := h * / 2.
  Let k := kf O O O.
  Let U := uf O O O.
  Let V := vf O O O.
  (** N bounds the l1-norm of the directions (1, U, V) *)
  Let N := 1 + B0 + B0.
  Let A := a * N.
  Let H := h * N.
  (** Taylor remainders of the stages: orders 0..2 for U and V at stages 2 and 3, order 3 for k at
      stages 2, 3, 4 *)
  Let uU2 := U2 - U.
  Let uV2 := V2 - V.
  Let tU2 := U2 - tp1 uf a (a * U) (a * V).
  Let tV2 := V2 - tp1 vf a (a * U) (a * V).
  Let sU2 := U2 - tp2 uf a (a * U) (a * V).
  Let sV2 := V2 - tp2 vf a (a * U) (a * V).
  Let r2 := K2 - tp3 kf a (a * U) (a * V).
  Let uU3 := U3 - U.
  Let uV3 := V3 - V.
  Let tU3 := U3 - tp1 uf a (a * U2) (a * V2).
  Let tV3 := V3 - tp1 vf a (a * U2) (a * V2).
  Let sU3 := U3 - tp2 uf a (a * U2) (a * V2).
  Let sV3 := V3 - tp2 vf a (a * U2) (a * V2).
  Let r3 := K3 - tp3 kf a (a * U2) (a * V2).
  Let r4 := K4 - tp3 kf h (h * U3) (h * V3).
  Hypothesis HuU2 : Rabs uU2 <= B1 * A.
  Hypothesis HuV2 : Rabs uV2 <= B1 * A.
  Hypothesis HtU2 : Rabs tU2 <= B2 * A ^ 2 / 2.
  Hypothesis HtV2 : Rabs tV2 <= B2 * A ^ 2 / 2.
  Hypothesis HsU2 : Rabs sU2 <= B3 * A ^ 3 / 6.
  Hypothesis HsV2 : Rabs sV2 <= B3 * A ^ 3 / 6.
  Hypothesis Hr2 : Rabs r2 <= B4 * A ^ 4 / 24.
  Hypothesis HuU3 : Rabs uU3 <= B1 * A.
  Hypothesis HuV3 : Rabs uV3 <= B1 * A.
  Hypothesis HtU3 : Rabs tU3 <= B2 * A ^ 2 / 2.
  Hypothesis HtV3 : Rabs tV3 <= B2 * A ^ 2 / 2.
  Hypothesis HsU3 : Rabs sU3 <= B3 * A ^ 3 / 6.
  Hypothesis HsV3 : Rabs sV3 <= B3 * A ^ 3 / 6.
  Hypothesis Hr3 : Rabs r3 <= B4 * A ^ 4 / 24.
  Hypothesis Hr4 : Rabs r4 <= B4 * H ^ 4 / 24.

  Let Ha : 0 <= a.
  Proof. unfold a. lra. Qed.
  Let HU : Rabs U <= B0.
  Proof. pose proof (Huf O O O ltac:(simpl; lia)) as H0. cbn [Nat.add nBd] in H0. unfold U. lra. Qed.
  Let HV : Rabs V <= B0.
  Proof. pose proof (Hvf O O O ltac:(simpl; lia)) as H0. cbn [Nat.add nBd] in H0. unfold V. lra. Qed.

  (** the second and third derivatives of the two coordinates of the solution at the base point,
      and the derivatives of order 2, 3, 4 of the component (elementary differentials) *)
  Definition aX2 (f : fam) : R := GF1 f U V O O O.
  Definition aX3 (f : fam) : R := GF2 f U V (aX2 uf) (aX2 vf) O O O.
  Definition aZ2 : R := GF1 kf U V O O O.
  Definition aZ3 : R := GF2 kf U V (aX2 uf) (aX2 vf) O O O.
  Definition aZ4 : R := GF3 kf U V (aX2 uf) (aX2 vf) (aX3 uf) (aX3 vf) O O O.

  (** derived remainders.  [cubd f p q P Q] = f'''(g', g', g') - f'''(g, g, g) for g = (1, U, V),
      g' = (1, P, Q) = g + (0, p, q), telescoped *)
  Definition cubd (f : fam) (p q P Q : R) : R :=
    dd 0 p q (dd 1 P Q (dd 1 P Q f)) O O O + dd 1 U V (dd 0 p q (dd 1 P Q f)) O O O
    + dd 1 U V (dd 1 U V (dd 0 p q f)) O O O.
  Definition aR3 : R :=
    a * dd 0 sU2 sV2 kf O O O + a * a * dd 1 U V (dd 0 tU2 tV2 kf) O O O
    + a * a * / 2 * dd 0 uU2 uV2 (dd 0 uU2 uV2 kf) O O O
    + a * a * a * / 6 * cubd kf uU2 uV2 U2 V2 + r3.
  Definition sg3 (f : fam) (s3 : R) : R :=
    a * dd 0 tU2 tV2 f O O O
    + a * a * / 2 * (dd 0 uU2 uV2 (dd 1 U2 V2 f) O O O + dd 1 U V (dd 0 uU2 uV2 f) O O O) + s3.
  Definition ta3 (f : fam) (t3 : R) : R := a * dd 0 uU2 uV2 f O O O + t3.
  Definition aR4 : R :=
    h * dd 0 (sg3 uf sU3) (sg3 vf sV3) kf O O O
    + h * h * dd 1 U V (dd 0 (ta3 uf tU3) (ta3 vf tV3) kf) O O O
    + h * h * / 2 * dd 0 uU3 uV3 (dd 0 uU3 uV3 kf) O O O
    + h * h * h * / 6 * cubd kf uU3 uV3 U3 V3 + r4.

  (** the order conditions of RK4 for a system, through h^4, as ONE polynomial identity *)
  Lemma rk4_2d_combination :
    h * ((k + 2 * K2 + 2 * K3 + K4) / 6)
    = h * k + h ^ 2 / 2 * aZ2 + h ^ 3 / 6 * aZ3 + h ^ 4 / 24 * aZ4
      + h * / 6 * (2 * r2 + 2 * aR3 + aR4).
  Proof.
    unfold aR4, aR3, ta3, sg3, cubd, aZ4, aZ3, aZ2, aX3, aX2, GF3, GF2, GF1, fplus, fscal,
      r4, r3, sV3, sU3, tV3, tU3, uV3, uU3, r2, sV2, sU2, tV2, tU2, uV2, uU2, tp3, tp2, tp1, dd,
      a, k, U, V.
    field.
  Qed.

  Definition bcub : R := 3 * (B3 * N ^ 2 * (2 * (B1 * A))).
  Definition bR3 : R :=
    a * (B1 * (2 * (B3 * A ^ 3 / 6))) + a * a * (B2 * N * (2 * (B2 * A ^ 2 / 2)))
    + a * a * / 2 * (B2 * (2 * (B1 * A)) ^ 2) + a * a * a * / 6 * bcub + B4 * A ^ 4 / 24.
  Definition bsg3 : R :=
    a * (B1 * (2 * (B2 * A ^ 2 / 2))) + a * a * / 2 * (2 * (B2 * N * (2 * (B1 * A))))
    + B3 * A ^ 3 / 6.
  Definition bta3 : R := a * (B1 * (2 * (B1 * A))) + B2 * A ^ 2 / 2.
  Definition bR4 : R :=
    h * (B1 * (2 * bsg3)) + h * h * (B2 * N * (2 * bta3))
    + h * h * / 2 * (B2 * (2 * (B1 * A)) ^ 2) + h * h * h * / 6 * bcub + B4 * H ^ 4 / 24.

  Lemma cubd_bound (p q P Q : R) :
    Rabs p <= B1 * A -> Rabs q <= B1 * A -> Rabs P <= B0 -> Rabs Q <= B0 ->
    Rabs (cubd kf p q P Q) <= bcub.
  Proof.
    intros Hp Hq HP HQ. eapply Rle_trans. unfold cubd. bnd.
    apply Req_le. unfold bcub, N. cbn [nBd]. ring.
  Qed.
  Lemma aR3_bound : Rabs aR3 <= bR3.
  Proof.
    pose proof (cubd_bound uU2 uV2 U2 V2 HuU2 HuV2 HU2 HV2) as Hc.
    eapply Rle_trans. unfold aR3. bnd.
    apply Req_le. unfold bR3, N. cbn [nBd]. ring.
  Qed.
  Lemma sg3_bound (f : fam) (s3 : R) : fbound Bd f 1 0 -> Rabs s3 <= B3 * A ^ 3 / 6 ->
    Rabs (sg3 f s3) <= bsg3.
  Proof.
    intros Hf Hs. eapply Rle_trans. unfold sg3. bnd.
    apply Req_le. unfold bsg3, N. cbn [nBd]. ring.
  Qed.
  Lemma ta3_bound (f : fam) (t3 : R) : fbound Bd f 1 0 -> Rabs t3 <= B2 * A ^ 2 / 2 ->
    Rabs (ta3 f t3) <= bta3.
  Proof.
    intros Hf Ht. eapply Rle_trans. unfold ta3. bnd.
    apply Req_le. unfold bta3. cbn [nBd]. ring.
  Qed.
  Lemma aR4_bound : Rabs aR4 <= bR4.
  Proof.
    pose proof (cubd_bound uU3 uV3 U3 V3 HuU3 HuV3 HU3 HV3) as Hc.
    pose proof (sg3_bound uf sU3 Huf HsU3) as S1. pose proof (sg3_bound vf sV3 Hvf HsV3) as S2.
    pose proof (ta3_bound uf tU3 Huf HtU3) as T1. pose proof (ta3_bound vf tV3 Hvf HtV3) as T2.
    eapply Rle_trans. unfold aR4. bnd.
    apply Req_le. unfold bR4, N. cbn [nBd]. ring.
  Qed.

  Definition E_RK4_2d : R := h * / 6 * (2 * (B4 * A ^ 4 / 24) + 2 * bR3 + bR4).

  (** h * (increment of the component) agrees with the Taylor polynomial of the exact solution's
      component through h^4 *)
  Lemma rk4_2d_local_algebra :
    Rabs (h * ((k + 2 * K2 + 2 * K3 + K4) / 6)
          - (h * k + h ^ 2 / 2 * aZ2 + h ^ 3 / 6 * aZ3 + h ^ 4 / 24 * aZ4)) <= E_RK4_2d.
  Proof.
    rewrite rk4_2d_combination.
    match goal with |- Rabs ?e <= _ =>
      replace e with (h * / 6 * (2 * r2 + 2 * aR3 + aR4)) by ring end.
    pose proof aR3_bound. pose proof aR4_bound. unfold E_RK4_2d. bnd.
  Qed.
End RK4Alg2D.

(** bounds of the derivatives of s |-> K (s, X s, Y s): M_(m+1) bounds the m-th one *)
Definition M2_2d (B0 B1 : R) : R := B1 * (1 + B0 + B0).
Definition M3_2d (B0 B1 B2 : R) : R :=
  B2 * (1 + B0 + B0) ^ 2 + B1 * (2 * M2_2d B0 B1).
Definition M4_2d (B0 B1 B2 B3 : R) : R :=
  B3 * (1 + B0 + B0) ^ 3 + 3 * (B2 * (1 + B0 + B0) * (2 * M2_2d B0 B1))
  + B1 * (2 * M3_2d B0 B1 B2).
Definition M5_2d (B0 B1 B2 B3 B4 : R) : R :=
  B4 * (1 + B0 + B0) ^ 4 + 6 * (B3 * (1 + B0 + B0) ^ 2 * (2 * M2_2d B0 B1))
  + 3 * (B2 * (2 * M2_2d B0 B1) ^ 2) + 4 * (B2 * (1 + B0 + B0) * (2 * M3_2d B0 B1 B2))
  + B1 * (2 * M4_2d B0 B1 B2 B3).

Section GFBounds.
  Variable J : fam.
  Variables B0 B1 B2 B3 B4 : R.
  Notation Bd := (nBd B0 B1 B2 B3 B4).
  Hypothesis HJ : fbound Bd J 1 0.
  Variables x1 y1 x2 y2 x3 y3 x4 y4 : R.
  Hypothesis Hx1 : Rabs x1 <= B0.
  Hypothesis Hy1 : Rabs y1 <= B0.

  Lemma GF1_bound : Rabs (GF1 J x1 y1 O O O) <= M2_2d B0 B1.
  Proof.
    eapply Rle_trans. unfold GF1. bnd. apply Req_le. unfold M2_2d. cbn [nBd]. ring.
  Qed.
  Hypothesis Hx2 : Rabs x2 <= M2_2d B0 B1.
  Hypothesis Hy2 : Rabs y2 <= M2_2d B0 B1.
  Lemma GF2_bound : Rabs (GF2 J x1 y1 x2 y2 O O O) <= M3_2d B0 B1 B2.
  Proof.
    eapply Rle_trans. unfold GF2. bnd. apply Req_le. unfold M3_2d. cbn [nBd]. ring.
  Qed.
  Hypothesis Hx3 : Rabs x3 <= M3_2d B0 B1 B2.
  Hypothesis Hy3 : Rabs y3 <= M3_2d B0 B1 B2.
  Lemma GF3_bound : Rabs (GF3 J x1 y1 x2 y2 x3 y3 O O O) <= M4_2d B0 B1 B2 B3.
  Proof.
    eapply Rle_trans. unfold GF3. bnd. apply Req_le. unfold M4_2d. cbn [nBd]. ring.
  Qed.
  Hypothesis Hx4 : Rabs x4 <= M4_2d B0 B1 B2 B3.
  Hypothesis Hy4 : Rabs y4 <= M4_2d B0 B1 B2 B3.
  Lemma GF4_bound : Rabs (GF4 J x1 y1 x2 y2 x3 y3 x4 y4 O O O) <= M5_2d B0 B1 B2 B3 B4.
  Proof.
    eapply Rle_trans. unfold GF4. bnd. apply Req_le. unfold M5_2d. cbn [nBd]. ring.
  Qed.
End GFBounds.

Definition C_RK4_2d (B0 B1 B2 B3 B4 : R) : R :=
  C_RK4a (1 + B0 + B0) (2 * B1) (2 * B2) (2 * B3) (2 * B4) / 2.

Lemma C_RK4_2d_eq (h B0 B1 B2 B3 B4 : R) :
  M5_2d B0 B1 B2 B3 B4 * h ^ 5 / 120 + E_RK4_2d h B0 B1 B2 B3 B4
  = C_RK4_2d B0 B1 B2 B3 B4 * h ^ 5.
Proof.
  unfold C_RK4_2d, C_RK4a, M5_2d, M4_2d, M3_2d, M2_2d, E_RK4_2d, bR4, bR3, bta3, bsg3, bcub.
  field.
Qed.

Lemma C_RK4_2d_expanded (B0 B1 B2 B3 B4 : R) :
  C_RK4_2d B0 B1 B2 B3 B4
  = (1 + 2 * B0) * B1 ^ 4 / 15 + 47 / 60 * ((1 + 2 * B0) ^ 2 * B1 ^ 2 * B2)
    + 31 / 240 * ((1 + 2 * B0) ^ 3 * B2 ^ 2) + 169 / 720 * ((1 + 2 * B0) ^ 3 * B1 * B3)
    + 49 / 2880 * ((1 + 2 * B0) ^ 4 * B4).
Proof. unfold C_RK4_2d, C_RK4a. field. Qed.

Lemma C_RK4_2d_nonneg (B0 B1 B2 B3 B4 : R) :
  0 <= B0 -> 0 <= B1 -> 0 <= B2 -> 0 <= B3 -> 0 <= B4 -> 0 <= C_RK4_2d B0 B1 B2 B3 B4.
Proof.
  intros H0 H1 H2 H3 H4. unfold C_RK4_2d.
  pose proof (C_RK4a_nonneg (1 + B0 + B0) (2 * B1) (2 * B2) (2 * B3) (2 * B4)
                ltac:(lra) ltac:(lra) ltac:(lra) ltac:(lra) ltac:(lra)). lra.
Qed.

(** * Part 2: function families.  [K i j l] is the partial derivative d_t^i d_x^j d_y^l of
    [K 0 0 0]; [jet K t x y] is its table of values at a point. *)
Definition ffam := nat -> nat -> nat -> R -> R -> R -> R.
Definition jet (K : ffam) (t x y : R) : fam := fun i j l => K i j l t x y.

(** C4 with bounded derivatives: Frechet differentiability of the partial derivatives of order < 4
    and bounds lumped per total order *)
Definition smooth4 (K : ffam) : Prop :=
  forall (i j l : nat) (t x y : R), (i + j + l < 4)%nat ->
    D3 (K i j l) t x y (K (S i) j l t x y) (K i (S j) l t x y) (K i j (S l) t x y).
Definition bounded4 (Bd : nat -> R) (K : ffam) : Prop :=
  forall (i j l : nat) (t x y : R), (i + j + l <= 4)%nat -> Rabs (K i j l t x y) <= Bd (i + j + l)%nat.

Lemma jet_fbound (Bd : nat -> R) (K : ffam) (t x y : R) :
  bounded4 Bd K -> fbound Bd (jet K t x y) 1 0.
Proof.
  intros HB i j l Hijl. unfold jet. rewrite Rmult_1_l, Nat.add_0_r.
  apply HB. lia.
Qed.

(** m-fold directional derivative *)
Fixpoint ddn (d0 d1 d2 : R) (m : nat) (F : fam) : fam :=
  match m with O => F | S m' => dd d0 d1 d2 (ddn d0 d1 d2 m' F) end.

Lemma lin3_derive (e0 e1 e2 p0 p1 p2 : R -> R) (s e0' e1' e2' p0' p1' p2' : R) :
  is_derive e0 s e0' -> is_derive e1 s e1' -> is_derive e2 s e2' ->
  is_derive p0 s p0' -> is_derive p1 s p1' -> is_derive p2 s p2' ->
  is_derive (fun r => e0 r * p0 r + e1 r * p1 r + e2 r * p2 r) s
    ((e0' * p0 s + e1' * p1 s + e2' * p2 s) + (e0 s * p0' + e1 s * p1' + e2 s * p2')).
Proof.
  intros H0 H1 H2 G0 G1 G2.
  assert (E0 : ex_derive e0 s) by (eexists; exact H0).
  assert (E1 : ex_derive e1 s) by (eexists; exact H1).
  assert (E2 : ex_derive e2 s) by (eexists; exact H2).
  assert (F0 : ex_derive p0 s) by (eexists; exact G0).
  assert (F1 : ex_derive p1 s) by (eexists; exact G1).
  assert (F2 : ex_derive p2 s) by (eexists; exact G2).
  auto_derive. repeat split; assumption.
  dfold e0 H0. dfold e1 H1. dfold e2 H2. dfold p0 G0. dfold p1 G1. dfold p2 G2. ring.
Qed.

(** [fder psi psi' s n]: the entries of order < n of the family psi r have the derivatives psi' at s *)
Definition fder (psi : R -> fam) (psi' : fam) (s : R) (n : nat) : Prop :=
  forall i j l, (i + j + l < n)%nat -> is_derive (fun r => psi r i j l) s (psi' i j l).

Lemma fder_le psi psi' s n m : fder psi psi' s n -> (m <= n)%nat -> fder psi psi' s m.
Proof. intros H Hm i j l Hijl. apply H. lia. Qed.

Lemma fder_dd (psi : R -> fam) (psi' : fam) (e0 e1 e2 : R -> R) (e0' e1' e2' s : R) (n : nat) :
  fder psi psi' s (S n) ->
  is_derive e0 s e0' -> is_derive e1 s e1' -> is_derive e2 s e2' ->
  fder (fun r => dd (e0 r) (e1 r) (e2 r) (psi r))
       (fplus (dd e0' e1' e2' (psi s)) (dd (e0 s) (e1 s) (e2 s) psi')) s n.
Proof.
  intros Hpsi H0 H1 H2 i j l Hijl. unfold fplus, dd.
  apply (lin3_derive e0 e1 e2 (fun r => psi r (S i) j l) (fun r => psi r i (S j) l)
           (fun r => psi r i j (S l)) s _ _ _ _ _ _ H0 H1 H2);
    apply Hpsi; lia.
Qed.

Lemma fder_plus (p1 p2 : R -> fam) (p1' p2' : fam) (s : R) (n : nat) :
  fder p1 p1' s n -> fder p2 p2' s n ->
  fder (fun r => fplus (p1 r) (p2 r)) (fplus p1' p2') s n.
Proof.
  intros H1 H2 i j l Hijl. unfold fplus.
  apply (is_derive_plus (fun r => p1 r i j l) (fun r => p2 r i j l)).
  apply H1; exact Hijl. apply H2; exact Hijl.
Qed.

Lemma fder_scal (c : R) (p : R -> fam) (p' : fam) (s : R) (n : nat) :
  fder p p' s n -> fder (fun r => fscal c (p r)) (fscal c p') s n.
Proof.
  intros H i j l Hijl. unfold fscal.
  apply (is_derive_scal (fun r => p r i j l) s c). apply H; exact Hijl.
Qed.

(** the chain rule for a whole jet along a differentiable curve *)
Lemma jet_fder (K : ffam) (ta xa ya : R -> R) (s ta' xa' ya' : R) :
  smooth4 K -> is_derive ta s ta' -> is_derive xa s xa' -> is_derive ya s ya' ->
  fder (fun r => jet K (ta r) (xa r) (ya r)) (dd ta' xa' ya' (jet K (ta s) (xa s) (ya s))) s 4.
Proof.
  intros HK Ht Hx Hy i j l Hijl. unfold jet, dd. evar_last.
  apply (D3_chain (K i j l) ta xa ya s _ _ _ ta' xa' ya' (HK i j l _ _ _ Hijl) Ht Hx Hy).
  ring.
Qed.

Lemma fder_ddc (psi : R -> fam) (psi' : fam) (c0 c1 c2 s : R) (n : nat) :
  fder psi psi' s (S n) ->
  fder (fun r => dd c0 c1 c2 (psi r)) (dd c0 c1 c2 psi') s n.
Proof.
  intros Hpsi i j l Hijl. unfold dd. evar_last.
  apply (lin3_derive (fun _ => c0) (fun _ => c1) (fun _ => c2)
           (fun r => psi r (S i) j l) (fun r => psi r i (S j) l) (fun r => psi r i j (S l))
           s 0 0 0 (psi' (S i) j l) (psi' i (S j) l) (psi' i j (S l)));
    try apply is_derive_const_R; apply Hpsi; lia.
  ring.
Qed.

Lemma bounded4_nonneg (Bd : nat -> R) (K : ffam) (k : nat) :
  bounded4 Bd K -> (k <= 4)%nat -> 0 <= Bd k.
Proof.
  intros HB Hk. eapply Rle_trans. apply Rabs_pos.
  pose proof (HB k O O 0 0 0 ltac:(lia)) as H. rewrite !Nat.add_0_r in H. exact H.
Qed.

(** ** Taylor expansions of K 0 0 0 at (t, p, q) along the segment to (t + d0, p + d1, q + d2),
    orders 0..3 *)
Section Segment.
  Variable K : ffam.
  Variables B0 B1 B2 B3 B4 : R.
  Notation Bd := (nBd B0 B1 B2 B3 B4).
  Hypothesis HK : smooth4 K.
  Hypothesis HB : bounded4 Bd K.
  Variables t p q d0 d1 d2 D : R.
  Hypothesis HD : Rabs d0 + Rabs d1 + Rabs d2 <= D.

  Let Dn := Rabs d0 + Rabs d1 + Rabs d2.
  Let J (r : R) : fam := jet K (t + r * d0) (p + r * d1) (q + r * d2).

  Lemma seg_fder m : forall n r, (m + n <= 4)%nat ->
    fder (fun r => ddn d0 d1 d2 m (J r)) (ddn d0 d1 d2 (S m) (J r)) r n.
  Proof.
    induction m as [|m IH]; intros n r Hmn.
    - cbn [ddn]. apply (fder_le _ _ _ 4); [|lia]. unfold J.
      apply (jet_fder K (fun r => t + r * d0) (fun r => p + r * d1) (fun r => q + r * d2) r
               d0 d1 d2 HK); apply is_derive_line.
    - change (fder (fun r0 => dd d0 d1 d2 (ddn d0 d1 d2 m (J r0)))
                   (dd d0 d1 d2 (ddn d0 d1 d2 (S m) (J r))) r n).
      apply fder_ddc. apply IH. lia.
  Qed.

  Definition sgP (m : nat) (r : R) : R := ddn d0 d1 d2 m (J r) O O O.

  Lemma sgP_is_derive m r : (m < 4)%nat -> is_derive (sgP m) r (sgP (S m) r).
  Proof. intros Hm. apply (seg_fder m 1 r ltac:(lia) O O O). simpl. lia. Qed.

  Lemma ddn_fbound (F : fam) m : fbound Bd F 1 0 -> fbound Bd (ddn d0 d1 d2 m F) (Dn ^ m) m.
  Proof.
    intros HF. induction m as [|m IH].
    - cbn [ddn pow]. exact HF.
    - cbn [ddn]. intros i j l Hijl.
      pose proof (dd_fbound Bd _ _ _ d0 d1 d2 _ _ _ IH (Rle_refl _) (Rle_refl _) (Rle_refl _)
                    i j l Hijl) as H.
      eapply Rle_trans. exact H. apply Req_le. unfold Dn. simpl. ring.
  Qed.

  Lemma sgP_bound m r : (m <= 4)%nat -> Rabs (sgP m r) <= Bd m * D ^ m.
  Proof.
    intros Hm. unfold sgP.
    pose proof (fbound_eval Bd _ _ m (ddn_fbound (J r) m (jet_fbound Bd K _ _ _ HB)) Hm) as H.
    eapply Rle_trans. exact H. rewrite Rmult_comm.
    apply Rmult_le_compat_l. apply (bounded4_nonneg Bd K m HB Hm).
    apply pow_incr. split; [|exact HD].
    unfold Dn. pose proof (Rabs_pos d0). pose proof (Rabs_pos d1). pose proof (Rabs_pos d2). lra.
  Qed.

  Lemma sgP_ladder k : (k <= 4)%nat ->
    (forall r, -1 < r < 2 -> Derive_n (sgP 0) k r = sgP k r).
  Proof.
    induction k as [|k IH]; intros Hk.
    - intros r _. reflexivity.
    - apply (asol_ladder (sgP 0) (-1) 2 k (sgP k) (sgP (S k))).
      + apply IH. lia.
      + intros r Hr. apply sgP_is_derive. lia.
  Qed.

  Lemma sgP_ex_derive_n k r : (k <= 4)%nat -> -1 < r < 2 -> ex_derive_n (sgP 0) k r.
  Proof.
    intros Hk Hr. destruct k as [|k]. exact I.
    change (ex_derive (Derive_n (sgP 0) k) r). exists (sgP (S k) r).
    apply (asol_ladder (sgP 0) (-1) 2 k (sgP k) (sgP (S k))).
    - apply sgP_ladder. lia.
    - intros u Hu. apply sgP_is_derive. lia.
    - exact Hr.
  Qed.

  Lemma seg3_taylor n : (n < 4)%nat -> exists c, 0 < c < 1 /\
    K O O O (t + d0) (p + d1) (q + d2)
    = sum_f_R0 (fun m => sgP m 0 / INR (fact m)) n + sgP (S n) c / INR (fact (S n)).
  Proof.
    intros Hn.
    destruct (Taylor_Lagrange (sgP 0) n 0 1 ltac:(lra)) as (c & Hc & E).
    { intros r Hr k Hk. apply sgP_ex_derive_n. lia. lra. }
    exists c. split. exact Hc.
    replace (K O O O (t + d0) (p + d1) (q + d2)) with (sgP 0 1)
      by (unfold sgP, J, jet; cbn [ddn]; f_equal; ring).
    rewrite E. rewrite sgP_ladder by (lia || lra). f_equal.
    - apply sum_eq. intros i Hi. rewrite sgP_ladder by (lia || lra).
      replace (1 - 0) with 1 by ring. rewrite pow1. field. apply INR_fact_neq_0.
    - replace (1 - 0) with 1 by ring. rewrite pow1. field. apply INR_fact_neq_0.
  Qed.

  Lemma sgP_at_0 m : sgP m 0 = ddn d0 d1 d2 m (jet K t p q) O O O.
  Proof. unfold sgP, J. do 4 f_equal; ring. Qed.

  Notation J0 := (jet K t p q).

  Lemma taylor3_k0 :
    Rabs (K O O O (t + d0) (p + d1) (q + d2) - J0 O O O) <= B1 * D.
  Proof.
    destruct (seg3_taylor 0 ltac:(lia)) as (c & Hc & E). rewrite E. cbn [sum_f_R0].
    rewrite sgP_at_0. cbn [ddn].
    match goal with |- Rabs ?e <= _ => replace e with (sgP 1 c) by (simpl; field) end.
    pose proof (sgP_bound 1 c ltac:(lia)) as H. cbn [nBd] in H. lra.
  Qed.
  Lemma taylor3_k1 :
    Rabs (K O O O (t + d0) (p + d1) (q + d2) - tp1 J0 d0 d1 d2) <= B2 * D ^ 2 / 2.
  Proof.
    destruct (seg3_taylor 1 ltac:(lia)) as (c & Hc & E). rewrite E. cbn [sum_f_R0].
    rewrite !sgP_at_0. cbn [ddn]. unfold tp1.
    match goal with |- Rabs ?e <= _ => replace e with (/ 2 * sgP 2 c) by (simpl; field) end.
    rewrite Rabs_mult, (Rabs_pos_eq (/ 2)) by lra.
    pose proof (sgP_bound 2 c ltac:(lia)) as H. cbn [nBd] in H. lra.
  Qed.
  Lemma taylor3_k2 :
    Rabs (K O O O (t + d0) (p + d1) (q + d2) - tp2 J0 d0 d1 d2) <= B3 * D ^ 3 / 6.
  Proof.
    destruct (seg3_taylor 2 ltac:(lia)) as (c & Hc & E). rewrite E. cbn [sum_f_R0].
    rewrite !sgP_at_0. cbn [ddn]. unfold tp2, tp1.
    match goal with |- Rabs ?e <= _ => replace e with (/ 6 * sgP 3 c) by (simpl; field) end.
    rewrite Rabs_mult, (Rabs_pos_eq (/ 6)) by lra.
    pose proof (sgP_bound 3 c ltac:(lia)) as H. cbn [nBd] in H. lra.
  Qed.
  Lemma taylor3_k3 :
    Rabs (K O O O (t + d0) (p + d1) (q + d2) - tp3 J0 d0 d1 d2) <= B4 * D ^ 4 / 24.
  Proof.
    destruct (seg3_taylor 3 ltac:(lia)) as (c & Hc & E). rewrite E. cbn [sum_f_R0].
    rewrite !sgP_at_0. cbn [ddn]. unfold tp3, tp2, tp1.
    match goal with |- Rabs ?e <= _ => replace e with (/ 24 * sgP 4 c) by (simpl; field) end.
    rewrite Rabs_mult, (Rabs_pos_eq (/ 24)) by lra.
    pose proof (sgP_bound 4 c ltac:(lia)) as H. cbn [nBd] in H. lra.
  Qed.
End Segment.

(** * Part 3: derivatives along a curve.  J r is the jet of K at (r, X r, Y r); its entries have
    the derivatives dd 1 x1 y1 J (chain rule), x1, y1 being the derivatives of X, Y; x2, ... are
    the higher derivatives of the curve.  GF1..GF3 are differentiated structurally. *)
Section FaaDiBruno.
  Variable J : R -> fam.
  Variables x1 y1 x2 y2 x3 y3 x4 y4 : R -> R.
  Variable s : R.
  Hypothesis HJ : fder J (dd 1 (x1 s) (y1 s) (J s)) s 4.
  Hypothesis H1x : is_derive x1 s (x2 s).
  Hypothesis H1y : is_derive y1 s (y2 s).
  Hypothesis H2x : is_derive x2 s (x3 s).
  Hypothesis H2y : is_derive y2 s (y3 s).
  Hypothesis H3x : is_derive x3 s (x4 s).
  Hypothesis H3y : is_derive y3 s (y4 s).

  Ltac der := first [eassumption | apply is_derive_const_R].
  Ltac fd :=
    match goal with
    | |- fder (fun r => fplus (@?a r) (@?b r)) _ _ _ => eapply (fder_plus a b); fd
    | |- fder (fun r => fscal ?c (@?a r)) _ _ _ => eapply (fder_scal c a); fd
    | |- fder (fun r => dd (@?e0 r) (@?e1 r) (@?e2 r) (@?a r)) _ _ _ =>
        eapply (fder_dd a _ e0 e1 e2); [fd | der | der | der]
    | |- fder _ _ _ _ => eapply fder_le; [exact HJ | lia]
    end.

  Lemma GF1_derive :
    is_derive (fun r => GF1 (J r) (x1 r) (y1 r) O O O) s
      (GF2 (J s) (x1 s) (y1 s) (x2 s) (y2 s) O O O).
  Proof.
    eassert (F : fder (fun r => GF1 (J r) (x1 r) (y1 r)) _ s 1).
    { unfold GF1. fd. }
    evar_last. apply (F O O O). simpl; lia.
    unfold GF2, fplus, fscal, dd. ring.
  Qed.

  Lemma GF2_derive :
    is_derive (fun r => GF2 (J r) (x1 r) (y1 r) (x2 r) (y2 r) O O O) s
      (GF3 (J s) (x1 s) (y1 s) (x2 s) (y2 s) (x3 s) (y3 s) O O O).
  Proof.
    eassert (F : fder (fun r => GF2 (J r) (x1 r) (y1 r) (x2 r) (y2 r)) _ s 1).
    { unfold GF2. fd. }
    evar_last. apply (F O O O). simpl; lia.
    unfold GF3, fplus, fscal, dd. ring.
  Qed.

  Lemma GF3_derive :
    is_derive (fun r => GF3 (J r) (x1 r) (y1 r) (x2 r) (y2 r) (x3 r) (y3 r) O O O) s
      (GF4 (J s) (x1 s) (y1 s) (x2 s) (y2 s) (x3 s) (y3 s) (x4 s) (y4 s) O O O).
  Proof.
    eassert (F : fder (fun r => GF3 (J r) (x1 r) (y1 r) (x2 r) (y2 r) (x3 r) (y3 r)) _ s 1).
    { unfold GF3. fd. }
    evar_last. apply (F O O O). simpl; lia.
    unfold GF4, fplus, fscal, dd. ring.
  Qed.
End FaaDiBruno.

(** existence of derivatives, structurally (for the end points of the closed interval) *)
Lemma exd_plus (a b : R -> R) (e : R) :
  ex_derive a e -> ex_derive b e -> ex_derive (fun z => a z + b z) e.
Proof. intros Ha Hb. auto_derive. repeat split; assumption. Qed.
Lemma exd_minus (a b : R -> R) (e : R) :
  ex_derive a e -> ex_derive b e -> ex_derive (fun z => a z - b z) e.
Proof. intros Ha Hb. auto_derive. repeat split; assumption. Qed.
Lemma exd_mult (a b : R -> R) (e : R) :
  ex_derive a e -> ex_derive b e -> ex_derive (fun z => a z * b z) e.
Proof. intros Ha Hb. auto_derive. repeat split; assumption. Qed.
Lemma exd_divc (a : R -> R) (c e : R) : ex_derive a e -> ex_derive (fun z => a z / c) e.
Proof. intros Ha. unfold Rdiv. apply (exd_mult a (fun _ => / c)). exact Ha. apply ex_derive_const. Qed.
Lemma exd_const (c e : R) : ex_derive (fun _ : R => c) e.
Proof. apply ex_derive_const. Qed.
Lemma exd_id (e : R) : ex_derive (fun z : R => z) e.
Proof. apply ex_derive_id. Qed.
Lemma D3_ex_derive (F : ffam) (ta xa ya : R -> R) (e : R) :
  smooth4 F -> ex_derive ta e -> ex_derive xa e -> ex_derive ya e ->
  ex_derive (fun z => F O O O (ta z) (xa z) (ya z)) e.
Proof.
  intros HF [dt Ht] [dx Hx] [dy Hy]. eexists.
  apply (D3_chain (F O O O) ta xa ya e _ _ _ dt dx dy (HF O O O _ _ _ ltac:(simpl; lia)) Ht Hx Hy).
Qed.

Ltac exd :=
  match goal with
  | |- ex_derive (fun _ => ?c) _ => apply exd_const
  | |- ex_derive (fun z => z) _ => apply exd_id
  | |- ex_derive _ _ => assumption
  | |- ex_derive (fun z => ?F O O O (@?t z) (@?x z) (@?y z)) ?e =>
      apply (D3_ex_derive F t x y e); [assumption | exd | exd | exd]
  | |- ex_derive (fun z => @?a z + @?b z) ?e => apply (exd_plus a b e); exd
  | |- ex_derive (fun z => @?a z - @?b z) ?e => apply (exd_minus a b e); exd
  | |- ex_derive (fun z => @?a z * @?b z) ?e => apply (exd_mult a b e); exd
  | |- ex_derive (fun z => @?a z / ?c) ?e => apply (exd_divc a c e); exd
  end.

(** the increment of the component with right-hand side K in one classical RK4 step of size h of
    the system x' = U, y' = V from (t, x, y) *)
Definition rk4c_2d (K U V : R -> R -> R -> R) (h t x y : R) : R :=
  (K t x y
   + 2 * K (t + h / 2) (x + h / 2 * U t x y) (y + h / 2 * V t x y)
   + 2 * K (t + h / 2)
         (x + h / 2 * U (t + h / 2) (x + h / 2 * U t x y) (y + h / 2 * V t x y))
         (y + h / 2 * V (t + h / 2) (x + h / 2 * U t x y) (y + h / 2 * V t x y))
   + K (t + h)
       (x + h * U (t + h / 2)
                  (x + h / 2 * U (t + h / 2) (x + h / 2 * U t x y) (y + h / 2 * V t x y))
                  (y + h / 2 * V (t + h / 2) (x + h / 2 * U t x y) (y + h / 2 * V t x y)))
       (y + h * V (t + h / 2)
                  (x + h / 2 * U (t + h / 2) (x + h / 2 * U t x y) (y + h / 2 * V t x y))
                  (y + h / 2 * V (t + h / 2) (x + h / 2 * U t x y) (y + h / 2 * V t x y)))) / 6.

(** * Part 4: one component of the RK4 step along an exact solution *)
Section Core4.
  (** the field (U, V) that the trajectory follows *)
  Variables U V : ffam.
  Variables B0 B1 B2 B3 B4 : R.
  Notation Bd := (nBd B0 B1 B2 B3 B4).
  Hypothesis HU : smooth4 U.
  Hypothesis HV : smooth4 V.
  Hypothesis HBU : bounded4 Bd U.
  Hypothesis HBV : bounded4 Bd V.

  Lemma cB_nonneg k : (k <= 4)%nat -> 0 <= Bd k.
  Proof. apply (bounded4_nonneg Bd U k HBU). Qed.

  (** the component K *)
  Section Component4.
    Variable K : ffam.
    Hypothesis HK : smooth4 K.
    Hypothesis HBK : bounded4 Bd K.

    Notation CC := (C_RK4_2d B0 B1 B2 B3 B4).

    Lemma cCC_nonneg4 : 0 <= CC.
    Proof.
      apply C_RK4_2d_nonneg; [apply (cB_nonneg 0) | apply (cB_nonneg 1) | apply (cB_nonneg 2)
                              | apply (cB_nonneg 3) | apply (cB_nonneg 4)]; lia.
    Qed.

    Section SolutionOpen4.
      Variables X Y Z : R -> R.
      Variables a b : R.
      Hypothesis HodeX : forall t, a < t < b -> is_derive X t (U O O O t (X t) (Y t)).
      Hypothesis HodeY : forall t, a < t < b -> is_derive Y t (V O O O t (X t) (Y t)).
      Hypothesis HodeZ : forall t, a < t < b -> is_derive Z t (K O O O t (X t) (Y t)).

      Definition sj (F : ffam) (s : R) : fam := jet F s (X s) (Y s).
      Definition sx1 (s : R) : R := U O O O s (X s) (Y s).
      Definition sy1 (s : R) : R := V O O O s (X s) (Y s).
      Definition sx2 (s : R) : R := GF1 (sj U s) (sx1 s) (sy1 s) O O O.
      Definition sy2 (s : R) : R := GF1 (sj V s) (sx1 s) (sy1 s) O O O.
      Definition sx3 (s : R) : R := GF2 (sj U s) (sx1 s) (sy1 s) (sx2 s) (sy2 s) O O O.
      Definition sy3 (s : R) : R := GF2 (sj V s) (sx1 s) (sy1 s) (sx2 s) (sy2 s) O O O.
      Definition sx4 (s : R) : R :=
        GF3 (sj U s) (sx1 s) (sy1 s) (sx2 s) (sy2 s) (sx3 s) (sy3 s) O O O.
      Definition sy4 (s : R) : R :=
        GF3 (sj V s) (sx1 s) (sy1 s) (sx2 s) (sy2 s) (sx3 s) (sy3 s) O O O.
      Definition sz1 (s : R) : R := K O O O s (X s) (Y s).
      Definition sz2 (s : R) : R := GF1 (sj K s) (sx1 s) (sy1 s) O O O.
      Definition sz3 (s : R) : R := GF2 (sj K s) (sx1 s) (sy1 s) (sx2 s) (sy2 s) O O O.
      Definition sz4 (s : R) : R :=
        GF3 (sj K s) (sx1 s) (sy1 s) (sx2 s) (sy2 s) (sx3 s) (sy3 s) O O O.
      Definition sz5 (s : R) : R :=
        GF4 (sj K s) (sx1 s) (sy1 s) (sx2 s) (sy2 s) (sx3 s) (sy3 s) (sx4 s) (sy4 s) O O O.

      Lemma sj_fder (F : ffam) s : smooth4 F -> a < s < b ->
        fder (sj F) (dd 1 (sx1 s) (sy1 s) (sj F s)) s 4.
      Proof.
        intros HF Hs. unfold sj.
        apply (jet_fder F (fun r => r) X Y s 1 _ _ HF).
        apply is_derive_id_R. apply HodeX; exact Hs. apply HodeY; exact Hs.
      Qed.

      Lemma sx1_derive s : a < s < b -> is_derive sx1 s (sx2 s).
      Proof. intros Hs. apply (sj_fder U s HU Hs O O O). simpl; lia. Qed.
      Lemma sy1_derive s : a < s < b -> is_derive sy1 s (sy2 s).
      Proof. intros Hs. apply (sj_fder V s HV Hs O O O). simpl; lia. Qed.
      Lemma sz1_derive s : a < s < b -> is_derive sz1 s (sz2 s).
      Proof. intros Hs. apply (sj_fder K s HK Hs O O O). simpl; lia. Qed.

      Lemma sg1_derive (F : ffam) s : smooth4 F -> a < s < b ->
        is_derive (fun r => GF1 (sj F r) (sx1 r) (sy1 r) O O O) s
          (GF2 (sj F s) (sx1 s) (sy1 s) (sx2 s) (sy2 s) O O O).
      Proof.
        intros HF Hs.
        apply (GF1_derive (sj F) sx1 sy1 sx2 sy2 s (sj_fder F s HF Hs)
                 (sx1_derive s Hs) (sy1_derive s Hs)).
      Qed.
      Lemma sx2_derive s : a < s < b -> is_derive sx2 s (sx3 s).
      Proof. intros Hs. apply (sg1_derive U s HU Hs). Qed.
      Lemma sy2_derive s : a < s < b -> is_derive sy2 s (sy3 s).
      Proof. intros Hs. apply (sg1_derive V s HV Hs). Qed.
      Lemma sz2_derive s : a < s < b -> is_derive sz2 s (sz3 s).
      Proof. intros Hs. apply (sg1_derive K s HK Hs). Qed.

      Lemma sg2_derive (F : ffam) s : smooth4 F -> a < s < b ->
        is_derive (fun r => GF2 (sj F r) (sx1 r) (sy1 r) (sx2 r) (sy2 r) O O O) s
          (GF3 (sj F s) (sx1 s) (sy1 s) (sx2 s) (sy2 s) (sx3 s) (sy3 s) O O O).
      Proof.
        intros HF Hs.
        apply (GF2_derive (sj F) sx1 sy1 sx2 sy2 sx3 sy3 s (sj_fder F s HF Hs)
                 (sx1_derive s Hs) (sy1_derive s Hs) (sx2_derive s Hs) (sy2_derive s Hs)).
      Qed.
      Lemma sx3_derive s : a < s < b -> is_derive sx3 s (sx4 s).
      Proof. intros Hs. apply (sg2_derive U s HU Hs). Qed.
      Lemma sy3_derive s : a < s < b -> is_derive sy3 s (sy4 s).
      Proof. intros Hs. apply (sg2_derive V s HV Hs). Qed.
      Lemma sz3_derive s : a < s < b -> is_derive sz3 s (sz4 s).
      Proof. intros Hs. apply (sg2_derive K s HK Hs). Qed.

      Lemma sz4_derive s : a < s < b -> is_derive sz4 s (sz5 s).
      Proof.
        intros Hs.
        apply (GF3_derive (sj K) sx1 sy1 sx2 sy2 sx3 sy3 sx4 sy4 s (sj_fder K s HK Hs)
                 (sx1_derive s Hs) (sy1_derive s Hs) (sx2_derive s Hs) (sy2_derive s Hs)
                 (sx3_derive s Hs) (sy3_derive s Hs)).
      Qed.

      (** bounds *)
      Lemma sj_fbound (F : ffam) s : bounded4 Bd F -> fbound Bd (sj F s) 1 0.
      Proof. intros HF. apply jet_fbound. exact HF. Qed.
      Lemma sx1_bound s : Rabs (sx1 s) <= B0.
      Proof. apply (HBU O O O). simpl; lia. Qed.
      Lemma sy1_bound s : Rabs (sy1 s) <= B0.
      Proof. apply (HBV O O O). simpl; lia. Qed.
      Lemma sx2_bound s : Rabs (sx2 s) <= M2_2d B0 B1.
      Proof. apply (GF1_bound _ B0 B1 B2 B3 B4). apply sj_fbound, HBU. apply sx1_bound. apply sy1_bound. Qed.
      Lemma sy2_bound s : Rabs (sy2 s) <= M2_2d B0 B1.
      Proof. apply (GF1_bound _ B0 B1 B2 B3 B4). apply sj_fbound, HBV. apply sx1_bound. apply sy1_bound. Qed.
      Lemma sx3_bound s : Rabs (sx3 s) <= M3_2d B0 B1 B2.
      Proof.
        apply (GF2_bound _ B0 B1 B2 B3 B4). apply sj_fbound, HBU. apply sx1_bound. apply sy1_bound.
        apply sx2_bound. apply sy2_bound.
      Qed.
      Lemma sy3_bound s : Rabs (sy3 s) <= M3_2d B0 B1 B2.
      Proof.
        apply (GF2_bound _ B0 B1 B2 B3 B4). apply sj_fbound, HBV. apply sx1_bound. apply sy1_bound.
        apply sx2_bound. apply sy2_bound.
      Qed.
      Lemma sx4_bound s : Rabs (sx4 s) <= M4_2d B0 B1 B2 B3.
      Proof.
        apply (GF3_bound _ B0 B1 B2 B3 B4). apply sj_fbound, HBU. apply sx1_bound. apply sy1_bound.
        apply sx2_bound. apply sy2_bound. apply sx3_bound. apply sy3_bound.
      Qed.
      Lemma sy4_bound s : Rabs (sy4 s) <= M4_2d B0 B1 B2 B3.
      Proof.
        apply (GF3_bound _ B0 B1 B2 B3 B4). apply sj_fbound, HBV. apply sx1_bound. apply sy1_bound.
        apply sx2_bound. apply sy2_bound. apply sx3_bound. apply sy3_bound.
      Qed.
      Lemma sz5_bound s : Rabs (sz5 s) <= M5_2d B0 B1 B2 B3 B4.
      Proof.
        apply (GF4_bound _ B0 B1 B2 B3 B4). apply sj_fbound, HBK. apply sx1_bound. apply sy1_bound.
        apply sx2_bound. apply sy2_bound. apply sx3_bound. apply sy3_bound.
        apply sx4_bound. apply sy4_bound.
      Qed.

      (** the derivative ladder of Z *)
      Lemma zsol_d0 : (forall t, a < t < b -> is_derive (Derive_n Z 0) t (sz1 t))
                      /\ (forall t, a < t < b -> Derive_n Z 1 t = sz1 t).
      Proof.
        split. exact HodeZ. intros t Ht. apply is_derive_unique. apply HodeZ. exact Ht.
      Qed.
      Lemma zsol_d1 : (forall t, a < t < b -> is_derive (Derive_n Z 1) t (sz2 t))
                      /\ (forall t, a < t < b -> Derive_n Z 2 t = sz2 t).
      Proof. apply (asol_ladder Z a b 1 sz1). apply zsol_d0. exact sz1_derive. Qed.
      Lemma zsol_d2 : (forall t, a < t < b -> is_derive (Derive_n Z 2) t (sz3 t))
                      /\ (forall t, a < t < b -> Derive_n Z 3 t = sz3 t).
      Proof. apply (asol_ladder Z a b 2 sz2). apply zsol_d1. exact sz2_derive. Qed.
      Lemma zsol_d3 : (forall t, a < t < b -> is_derive (Derive_n Z 3) t (sz4 t))
                      /\ (forall t, a < t < b -> Derive_n Z 4 t = sz4 t).
      Proof. apply (asol_ladder Z a b 3 sz3). apply zsol_d2. exact sz3_derive. Qed.
      Lemma zsol_d4 : (forall t, a < t < b -> is_derive (Derive_n Z 4) t (sz5 t))
                      /\ (forall t, a < t < b -> Derive_n Z 5 t = sz5 t).
      Proof. apply (asol_ladder Z a b 4 sz4). apply zsol_d3. exact sz4_derive. Qed.

      (** Taylor-Lagrange of order 4 for Z *)
      Lemma taylor5_Z s h : 0 < h -> a < s -> s + h < b ->
        Rabs (Z (s + h) - (Z s + h * sz1 s + h ^ 2 / 2 * sz2 s + h ^ 3 / 6 * sz3 s
                           + h ^ 4 / 24 * sz4 s)) <= M5_2d B0 B1 B2 B3 B4 * h ^ 5 / 120.
      Proof.
        intros Hh Ha Hb.
        destruct (Taylor_Lagrange Z 4 s (s + h) ltac:(lra)) as (c & Hc & E).
        { intros t Ht k Hk.
          assert (Ht' : a < t < b) by lra.
          destruct k as [|[|[|[|[|[|k]]]]]]; [exact I | | | | | | lia]; eexists.
          - apply (proj1 zsol_d0). exact Ht'.
          - apply (proj1 zsol_d1). exact Ht'.
          - apply (proj1 zsol_d2). exact Ht'.
          - apply (proj1 zsol_d3). exact Ht'.
          - apply (proj1 zsol_d4). exact Ht'. }
        assert (E2 : Z (s + h) - (Z s + h * sz1 s + h ^ 2 / 2 * sz2 s + h ^ 3 / 6 * sz3 s
                                  + h ^ 4 / 24 * sz4 s) = h ^ 5 / 120 * sz5 c).
        { rewrite E. replace (s + h - s) with h by ring. cbn [sum_f_R0].
          rewrite (proj2 zsol_d4), (proj2 zsol_d3), (proj2 zsol_d2), (proj2 zsol_d1),
            (proj2 zsol_d0) by lra.
          change (Derive_n Z 0 s) with (Z s).
          generalize (sz5 c) (sz4 s) (sz3 s) (sz2 s) (sz1 s) (Z s). intros e5 e4 e3 e2 e1 e0.
          simpl. field. }
        rewrite E2. apply taylor_rem_bound. lra.
        rewrite Rabs_pos_eq; lra. apply sz5_bound.
      Qed.

      (** l1-norm of a stage displacement c * (1, u, v), |u|, |v| <= B0 *)
      Lemma disp_norm c u v : 0 <= c -> Rabs u <= B0 -> Rabs v <= B0 ->
        Rabs c + Rabs (c * u) + Rabs (c * v) <= c * (1 + B0 + B0).
      Proof.
        intros Hc Hu Hv. rewrite !Rabs_mult, (Rabs_pos_eq c) by exact Hc.
        assert (c * Rabs u <= c * B0) by (apply Rmult_le_compat_l; assumption).
        assert (c * Rabs v <= c * B0) by (apply Rmult_le_compat_l; assumption).
        lra.
      Qed.

      (** LOCAL TRUNCATION ERROR of the Z-component of the classical RK4 step (open interval) *)
      Theorem component_truncation_open4 s h : 0 < h -> a < s -> s + h < b ->
        Rabs (Z (s + h) - Z s - h * rk4c_2d (K O O O) (U O O O) (V O O O) h s (X s) (Y s))
          <= CC * h ^ 5.
      Proof.
        intros Hh Ha Hb.
        pose proof (taylor5_Z s h Hh Ha Hb) as H1.
        unfold rk4c_2d.
        set (p := X s) in *. set (q := Y s) in *.
        set (u1 := U O O O s p q). set (v1 := V O O O s p q).
        set (u2 := U O O O (s + h / 2) (p + h / 2 * u1) (q + h / 2 * v1)).
        set (v2 := V O O O (s + h / 2) (p + h / 2 * u1) (q + h / 2 * v1)).
        set (k2 := K O O O (s + h / 2) (p + h / 2 * u1) (q + h / 2 * v1)).
        set (u3 := U O O O (s + h / 2) (p + h / 2 * u2) (q + h / 2 * v2)).
        set (v3 := V O O O (s + h / 2) (p + h / 2 * u2) (q + h / 2 * v2)).
        set (k3 := K O O O (s + h / 2) (p + h / 2 * u2) (q + h / 2 * v2)).
        set (k4 := K O O O (s + h) (p + h * u3) (q + h * v3)).
        assert (Hb0 : forall (F : ffam), bounded4 Bd F -> forall t x y, Rabs (F O O O t x y) <= B0).
        { intros F HF t x y. apply (HF O O O). simpl; lia. }
        assert (Ha2 : 0 <= h * / 2) by lra.
        assert (Hh' : 0 <= h) by lra.
        pose proof (disp_norm (h * / 2) u1 v1 Ha2 (Hb0 U HBU _ _ _) (Hb0 V HBV _ _ _)) as D2.
        pose proof (disp_norm (h * / 2) u2 v2 Ha2 (Hb0 U HBU _ _ _) (Hb0 V HBV _ _ _)) as D3.
        pose proof (disp_norm h u3 v3 Hh' (Hb0 U HBU _ _ _) (Hb0 V HBV _ _ _)) as D4.
        pose proof (rk4_2d_local_algebra (jet K s p q) (jet U s p q) (jet V s p q) h
                      k2 k3 k4 u2 u3 v2 v3 B0 B1 B2 B3 B4 Hh
                      (jet_fbound Bd K s p q HBK) (jet_fbound Bd U s p q HBU)
                      (jet_fbound Bd V s p q HBV)
                      (Hb0 U HBU _ _ _) (Hb0 V HBV _ _ _) (Hb0 U HBU _ _ _) (Hb0 V HBV _ _ _)
                      (taylor3_k0 U B0 B1 B2 B3 B4 HU HBU s p q _ _ _ _ D2)
                      (taylor3_k0 V B0 B1 B2 B3 B4 HV HBV s p q _ _ _ _ D2)
                      (taylor3_k1 U B0 B1 B2 B3 B4 HU HBU s p q _ _ _ _ D2)
                      (taylor3_k1 V B0 B1 B2 B3 B4 HV HBV s p q _ _ _ _ D2)
                      (taylor3_k2 U B0 B1 B2 B3 B4 HU HBU s p q _ _ _ _ D2)
                      (taylor3_k2 V B0 B1 B2 B3 B4 HV HBV s p q _ _ _ _ D2)
                      (taylor3_k3 K B0 B1 B2 B3 B4 HK HBK s p q _ _ _ _ D2)
                      (taylor3_k0 U B0 B1 B2 B3 B4 HU HBU s p q _ _ _ _ D3)
                      (taylor3_k0 V B0 B1 B2 B3 B4 HV HBV s p q _ _ _ _ D3)
                      (taylor3_k1 U B0 B1 B2 B3 B4 HU HBU s p q _ _ _ _ D3)
                      (taylor3_k1 V B0 B1 B2 B3 B4 HV HBV s p q _ _ _ _ D3)
                      (taylor3_k2 U B0 B1 B2 B3 B4 HU HBU s p q _ _ _ _ D3)
                      (taylor3_k2 V B0 B1 B2 B3 B4 HV HBV s p q _ _ _ _ D3)
                      (taylor3_k3 K B0 B1 B2 B3 B4 HK HBK s p q _ _ _ _ D3)
                      (taylor3_k3 K B0 B1 B2 B3 B4 HK HBK s p q _ _ _ _ D4)) as H2.
        change (aZ2 (jet K s p q) (jet U s p q) (jet V s p q)) with (sz2 s) in H2.
        change (aZ3 (jet K s p q) (jet U s p q) (jet V s p q)) with (sz3 s) in H2.
        change (aZ4 (jet K s p q) (jet U s p q) (jet V s p q)) with (sz4 s) in H2.
        change (jet K s p q O O O) with (sz1 s) in H2.
        rewrite <- (C_RK4_2d_eq h).
        change (K O O O s p q) with (sz1 s).
        match type of H1 with Rabs ?e1 <= _ => match type of H2 with Rabs ?e2 <= _ =>
          replace (Z (s + h) - Z s - h * ((sz1 s + 2 * k2 + 2 * k3 + k4) / 6))
            with (e1 + - e2) by ring
        end end.
        eapply Rle_trans. apply Rabs_triang. rewrite Rabs_Ropp. lra.
      Qed.
    End SolutionOpen4.

    (** ** the exact solution on a CLOSED interval [t0, t0 + T]: end steps by continuity *)
    Section SolutionClosed4.
      Variables X Y Z : R -> R.
      Variables t0 T : R.
      Hypothesis HodeX : forall t, t0 <= t <= t0 + T -> is_derive X t (U O O O t (X t) (Y t)).
      Hypothesis HodeY : forall t, t0 <= t <= t0 + T -> is_derive Y t (V O O O t (X t) (Y t)).
      Hypothesis HodeZ : forall t, t0 <= t <= t0 + T -> is_derive Z t (K O O O t (X t) (Y t)).

      Section ShrinkC4.
        Variables s h : R.
        Hypothesis Hh : 0 < h.
        Hypothesis Hs0 : t0 <= s.
        Hypothesis Hs1 : s + h <= t0 + T.

        (** the local error of the step shrunk by eps at both ends *)
        Definition cshrunk4 (eps : R) : R :=
          Z (s + h - eps) - Z (s + eps)
          - (h - 2 * eps)
            * rk4c_2d (K O O O) (U O O O) (V O O O) (h - 2 * eps) (s + eps)
                      (X (s + eps)) (Y (s + eps)).

        Lemma cshrunk4_0 :
          cshrunk4 0 = Z (s + h) - Z s
                       - h * rk4c_2d (K O O O) (U O O O) (V O O O) h s (X s) (Y s).
        Proof.
          unfold cshrunk4.
          replace (s + h - 0) with (s + h) by ring. replace (s + 0) with s by ring.
          replace (h - 2 * 0) with h by ring. reflexivity.
        Qed.

        Lemma cshrunk4_bound eps : 0 < eps < h / 2 -> Rabs (cshrunk4 eps) <= CC * h ^ 5.
        Proof.
          intros He.
          pose proof (component_truncation_open4 X Y Z t0 (t0 + T)
                        (fun t Ht => HodeX t (conj (Rlt_le _ _ (proj1 Ht)) (Rlt_le _ _ (proj2 Ht))))
                        (fun t Ht => HodeY t (conj (Rlt_le _ _ (proj1 Ht)) (Rlt_le _ _ (proj2 Ht))))
                        (fun t Ht => HodeZ t (conj (Rlt_le _ _ (proj1 Ht)) (Rlt_le _ _ (proj2 Ht))))
                        (s + eps) (h - 2 * eps) ltac:(lra) ltac:(lra) ltac:(lra)) as H.
          replace (s + eps + (h - 2 * eps)) with (s + h - eps) in H by ring.
          eapply Rle_trans. exact H.
          apply Rmult_le_compat_l. apply cCC_nonneg4.
          apply pow_incr. lra.
        Qed.

        Lemma cshrunk4_ex_derive : ex_derive cshrunk4 0.
        Proof.
          assert (Hs : t0 <= s <= t0 + T) by lra.
          assert (EX : ex_derive (fun z => X (s + z)) 0).
          { apply (ex_derive_comp X (fun z => s + z) 0).
            rewrite Rplus_0_r. eexists. apply HodeX. exact Hs.
            auto_derive. exact I. }
          assert (EY : ex_derive (fun z => Y (s + z)) 0).
          { apply (ex_derive_comp Y (fun z => s + z) 0).
            rewrite Rplus_0_r. eexists. apply HodeY. exact Hs.
            auto_derive. exact I. }
          assert (EZ0 : ex_derive (fun z => Z (s + z)) 0).
          { apply (ex_derive_comp Z (fun z => s + z) 0).
            rewrite Rplus_0_r. eexists. apply HodeZ. exact Hs.
            auto_derive. exact I. }
          assert (EZ1 : ex_derive (fun z => Z (s + h - z)) 0).
          { apply (ex_derive_comp Z (fun z => s + h - z) 0).
            rewrite Rminus_0_r. eexists. apply HodeZ. lra.
            auto_derive. exact I. }
          unfold cshrunk4, rk4c_2d.
          exd.
        Qed.

        Lemma closed_component_bound4 :
          Rabs (Z (s + h) - Z s - h * rk4c_2d (K O O O) (U O O O) (V O O O) h s (X s) (Y s))
            <= CC * h ^ 5.
        Proof.
          rewrite <- cshrunk4_0.
          apply (bound_by_shrinking cshrunk4 h). exact Hh. exact cshrunk4_ex_derive.
          exact cshrunk4_bound.
        Qed.
      End ShrinkC4.
    End SolutionClosed4.
  End Component4.
End Core4.

(** * Part 5: both components; the RK4 scheme of GeneralConvergence2DProofs.v (steps hx, hy in the
    two coordinates, time increment ht) on the field (u, v) = (U 0 0 0, V 0 0 0); it integrates
    x' = hx/ht * u (t, x, y), y' = hy/ht * v (t, x, y) *)
Definition scf (a : R) (F : ffam) : ffam := fun i j l t x y => a * F i j l t x y.

Lemma smooth4_scf (a : R) (F : ffam) : smooth4 F -> smooth4 (scf a F).
Proof. intros HF i j l t x y Hijl. unfold scf. apply D3_scal. apply HF. exact Hijl. Qed.

Lemma nBd_scal (c B0 B1 B2 B3 B4 : R) (k : nat) :
  nBd (c * B0) (c * B1) (c * B2) (c * B3) (c * B4) k = c * nBd B0 B1 B2 B3 B4 k.
Proof. destruct k as [|[|[|[|k]]]]; reflexivity. Qed.

Lemma bounded4_scf (a c B0 B1 B2 B3 B4 : R) (F : ffam) : 0 <= a <= c ->
  bounded4 (nBd B0 B1 B2 B3 B4) F ->
  bounded4 (nBd (c * B0) (c * B1) (c * B2) (c * B3) (c * B4)) (scf a F).
Proof.
  intros Hac HF i j l t x y Hijl. rewrite nBd_scal. unfold scf.
  pose proof (HF i j l t x y Hijl) as H. pose proof (Rabs_pos (F i j l t x y)) as H0.
  rewrite Rabs_mult, (Rabs_pos_eq a) by lra.
  apply Rmult_le_compat; lra.
Qed.

(** the scheme's increment, scaled by (hx, hy), in terms of rk4c_2d for the scaled field *)
Lemma rk4c_scaled_x (u v : R -> R -> R -> R) (hx hy ht s : R) (p : pt) : ht <> 0 ->
  ht * rk4c_2d (fun t x y => hx / ht * u t x y) (fun t x y => hx / ht * u t x y)
               (fun t x y => hy / ht * v t x y) ht s (fst p) (snd p)
  = fst (pscale2 hx hy (Phi_RK4_2d (field2 u v) hx hy ht s p)).
Proof.
  intros Hht.
  unfold rk4c_2d, pscale2, Phi_RK4_2d, rk4_2d_k4, rk4_2d_k3, rk4_2d_k2, rk4_2d_k1, field2, stage2,
    avg6.
  cbn [fst snd]. set (x := fst p). set (y := snd p).
  assert (E1 : forall w, x + ht / 2 * (hx / ht * w) = x + / 2 * hx * w) by (intros; field; exact Hht).
  assert (E2 : forall w, y + ht / 2 * (hy / ht * w) = y + / 2 * hy * w) by (intros; field; exact Hht).
  assert (E3 : forall w, x + ht * (hx / ht * w) = x + 1 * hx * w) by (intros; field; exact Hht).
  assert (E4 : forall w, y + ht * (hy / ht * w) = y + 1 * hy * w) by (intros; field; exact Hht).
  rewrite !E1, !E2, !E3, !E4. field. exact Hht.
Qed.
Lemma rk4c_scaled_y (u v : R -> R -> R -> R) (hx hy ht s : R) (p : pt) : ht <> 0 ->
  ht * rk4c_2d (fun t x y => hy / ht * v t x y) (fun t x y => hx / ht * u t x y)
               (fun t x y => hy / ht * v t x y) ht s (fst p) (snd p)
  = snd (pscale2 hx hy (Phi_RK4_2d (field2 u v) hx hy ht s p)).
Proof.
  intros Hht.
  unfold rk4c_2d, pscale2, Phi_RK4_2d, rk4_2d_k4, rk4_2d_k3, rk4_2d_k2, rk4_2d_k1, field2, stage2,
    avg6.
  cbn [fst snd]. set (x := fst p). set (y := snd p).
  assert (E1 : forall w, x + ht / 2 * (hx / ht * w) = x + / 2 * hx * w) by (intros; field; exact Hht).
  assert (E2 : forall w, y + ht / 2 * (hy / ht * w) = y + / 2 * hy * w) by (intros; field; exact Hht).
  assert (E3 : forall w, x + ht * (hx / ht * w) = x + 1 * hx * w) by (intros; field; exact Hht).
  assert (E4 : forall w, y + ht * (hy / ht * w) = y + 1 * hy * w) by (intros; field; exact Hht).
  rewrite !E1, !E2, !E3, !E4. field. exact Hht.
Qed.

(** the constant for metric factors a = hx/ht, b = hy/ht: all bounds are scaled by max a b *)
Definition C_RK4_2d_metric (a b B0 B1 B2 B3 B4 : R) : R :=
  C_RK4_2d (Rmax a b * B0) (Rmax a b * B1) (Rmax a b * B2) (Rmax a b * B3) (Rmax a b * B4).

Lemma C_RK4_2d_metric_1 B0 B1 B2 B3 B4 :
  C_RK4_2d_metric 1 1 B0 B1 B2 B3 B4 = C_RK4_2d B0 B1 B2 B3 B4.
Proof. unfold C_RK4_2d_metric. rewrite Rmax_left by lra. rewrite !Rmult_1_l. reflexivity. Qed.

Section Plane4.
  Variables U V : ffam.
  Variables B0 B1 B2 B3 B4 : R.
  Notation Bd := (nBd B0 B1 B2 B3 B4).
  Hypothesis HU : smooth4 U.
  Hypothesis HV : smooth4 V.
  Hypothesis HBU : bounded4 Bd U.
  Hypothesis HBV : bounded4 Bd V.

  Notation u := (U O O O).
  Notation v := (V O O O).
  Notation f := (field2 (U O O O) (V O O O)).
  Notation L2 := (L_2d B1 B1 B1 B1).
  Notation Cm a b := (C_RK4_2d_metric a b B0 B1 B2 B3 B4).
  Notation C4 := (C_RK4_2d B0 B1 B2 B3 B4).

  Lemma pB_nonneg k : (k <= 4)%nat -> 0 <= Bd k.
  Proof. apply (bounded4_nonneg Bd U k HBU). Qed.

  Lemma L2_nonneg4 : 0 <= L2.
  Proof.
    unfold L_2d. eapply Rle_trans; [| apply Rmax_l].
    pose proof (pB_nonneg 1 ltac:(lia)) as H. cbn [nBd] in H. lra.
  Qed.

  Lemma f_lipschitz_2d4 t p q : norm2 (psub (f t p) (f t q)) <= L2 * norm2 (psub p q).
  Proof.
    apply (field2_lipschitz u (U 1%nat O O) (U O 1%nat O) (U O O 1%nat)
             v (V 1%nat O O) (V O 1%nat O) (V O O 1%nat) B1 B1 B1 B1).
    - intros t' x y. apply (HU O O O). simpl; lia.
    - intros t' x y. apply (HV O O O). simpl; lia.
    - intros t' x y. apply (HBU O 1%nat O). simpl; lia.
    - intros t' x y. apply (HBU O O 1%nat). simpl; lia.
    - intros t' x y. apply (HBV O 1%nat O). simpl; lia.
    - intros t' x y. apply (HBV O O 1%nat). simpl; lia.
  Qed.

  (** ** general step sizes hx, hy, ht *)
  Section Metric4.
    Variable sol : R -> pt.
    Variables hx hy ht t0 T : R.
    Hypothesis Hhx : 0 < hx.
    Hypothesis Hhy : 0 < hy.
    Hypothesis Hht : 0 < ht.
    Hypothesis HodeX : forall t, t0 <= t <= t0 + T ->
      is_derive (fun r => fst (sol r)) t (hx / ht * u t (fst (sol t)) (snd (sol t))).
    Hypothesis HodeY : forall t, t0 <= t <= t0 + T ->
      is_derive (fun r => snd (sol r)) t (hy / ht * v t (fst (sol t)) (snd (sol t))).

    Let ma := hx / ht.
    Let mb := hy / ht.
    Let mc := Rmax ma mb.
    Let ma_pos : 0 < ma.
    Proof. apply Rdiv_lt_0_compat; assumption. Qed.
    Let mb_pos : 0 < mb.
    Proof. apply Rdiv_lt_0_compat; assumption. Qed.
    Let Hma : 0 <= ma <= mc.
    Proof. split. lra. apply Rmax_l. Qed.
    Let Hmb : 0 <= mb <= mc.
    Proof. split. lra. apply Rmax_r. Qed.

    Lemma Cm_nonneg4 : 0 <= Cm (hx / ht) (hy / ht).
    Proof.
      unfold C_RK4_2d_metric. fold ma mb mc.
      assert (0 <= mc) by lra.
      apply C_RK4_2d_nonneg; (apply Rmult_le_pos; [assumption|]).
      apply (pB_nonneg 0); lia. apply (pB_nonneg 1); lia. apply (pB_nonneg 2); lia.
      apply (pB_nonneg 3); lia. apply (pB_nonneg 4); lia.
    Qed.

    (** LOCAL TRUNCATION ERROR of one RK4 step from the exact solution, in the max-norm *)
    Theorem RK4_local_truncation_2d_metric s : t0 <= s -> s + ht <= t0 + T ->
      norm2 (psub (psub (sol (s + ht)) (sol s))
                  (pscale2 hx hy (Phi_RK4_2d f hx hy ht s (sol s))))
        <= Cm (hx / ht) (hy / ht) * ht ^ 5.
    Proof.
      intros Hs0 Hs1.
      assert (Hne : ht <> 0) by lra.
      pose proof (closed_component_bound4 (scf ma U) (scf mb V)
                    (mc * B0) (mc * B1) (mc * B2) (mc * B3) (mc * B4)
                    (smooth4_scf ma U HU) (smooth4_scf mb V HV)
                    (bounded4_scf ma mc B0 B1 B2 B3 B4 U Hma HBU)
                    (bounded4_scf mb mc B0 B1 B2 B3 B4 V Hmb HBV)) as Hc.
      pose proof (Hc (scf ma U) (smooth4_scf ma U HU) (bounded4_scf ma mc B0 B1 B2 B3 B4 U Hma HBU)
                    (fun r => fst (sol r)) (fun r => snd (sol r)) (fun r => fst (sol r)) t0 T
                    HodeX HodeY HodeX s ht Hht Hs0 Hs1) as Ex.
      pose proof (Hc (scf mb V) (smooth4_scf mb V HV) (bounded4_scf mb mc B0 B1 B2 B3 B4 V Hmb HBV)
                    (fun r => fst (sol r)) (fun r => snd (sol r)) (fun r => snd (sol r)) t0 T
                    HodeX HodeY HodeY s ht Hht Hs0 Hs1) as Ey.
      clear Hc.
      apply norm2_lub; cbn [psub fst snd].
      - rewrite <- (rk4c_scaled_x u v hx hy ht s (sol s) Hne). exact Ex.
      - rewrite <- (rk4c_scaled_y u v hx hy ht s (sol s) Hne). exact Ey.
    Qed.

    Variable n : nat.
    Hypothesis HT : INR n * ht = T.

    Lemma RK4_grid_truncation_2d_metric k : (k < n)%nat ->
      norm2 (local_err2 (Phi_RK4_2d f hx hy ht) hx hy ht t0 sol k)
        <= Cm (hx / ht) (hy / ht) * ht ^ 5.
    Proof.
      intros Hk.
      pose proof (grid_in_interval t0 ht n k Hht ltac:(lia)) as H1.
      pose proof (grid_in_interval t0 ht n (S k) Hht ltac:(lia)) as H2.
      rewrite HT in H1, H2.
      unfold local_err2.
      replace (t0 + INR (S k) * ht) with (t0 + INR k * ht + ht) in * by (rewrite S_INR; ring).
      apply RK4_local_truncation_2d_metric; lra.
    Qed.

    (** FOURTH-ORDER CONVERGENCE of the classical RK4 scheme in the plane: COMPLETE *)
    Theorem RK4_converges_general_2d_metric :
      norm2 (psub (one_step_iter2 (Phi_RK4_2d f hx hy ht) hx hy ht t0 n (sol t0)) (sol (t0 + T)))
        <= exp (T * (Rmax hx hy / ht * Lip_RK4 (Rmax hx hy) L2)) * T
           * Cm (hx / ht) (hy / ht) * ht ^ 4.
    Proof.
      apply (RK4_2d_converges_order4 f sol hx hy ht L2 (Cm (hx / ht) (hy / ht)) t0 T n
               Hhx Hhy Hht L2_nonneg4 Cm_nonneg4 HT f_lipschitz_2d4).
      exact RK4_grid_truncation_2d_metric.
    Qed.

    Theorem RK4_converges_general_2d_metric_uniform hmax : Rmax hx hy <= hmax ->
      norm2 (psub (one_step_iter2 (Phi_RK4_2d f hx hy ht) hx hy ht t0 n (sol t0)) (sol (t0 + T)))
        <= exp (T * (Rmax hx hy / ht * Lip_RK4 hmax L2)) * T
           * Cm (hx / ht) (hy / ht) * ht ^ 4.
    Proof.
      intros Hmax.
      apply (RK4_2d_converges_order4_uniform f sol hx hy ht hmax L2 (Cm (hx / ht) (hy / ht)) t0 T n
               Hhx Hhy Hht Hmax L2_nonneg4 Cm_nonneg4 HT f_lipschitz_2d4).
      exact RK4_grid_truncation_2d_metric.
    Qed.
  End Metric4.

  (** n steps of the rational model (Tracker.rk_iter with tab_RK4), both coordinates, on a
      velocity oracle that agrees with (u, v) through Q2R at the stage times *)
  Theorem model_RK4_converges_general_2d
      (vel : Q -> Q -> Q -> Q * Q) (dtdx dtdy x0 y0 : Q) (sol : R -> pt) (ht t0 T : R) (n : nat) :
    0 < Q2R dtdx -> 0 < Q2R dtdy -> 0 < ht -> INR n * ht = T ->
    (forall (k : nat) s x y,
       Q2R (fst (vel s x y)) = u (t0 + INR k * ht + Q2R s * ht) (Q2R x) (Q2R y)) ->
    (forall (k : nat) s x y,
       Q2R (snd (vel s x y)) = v (t0 + INR k * ht + Q2R s * ht) (Q2R x) (Q2R y)) ->
    (Q2R x0, Q2R y0) = sol t0 ->
    (forall t, t0 <= t <= t0 + T ->
       is_derive (fun r => fst (sol r)) t (Q2R dtdx / ht * u t (fst (sol t)) (snd (sol t)))) ->
    (forall t, t0 <= t <= t0 + T ->
       is_derive (fun r => snd (sol r)) t (Q2R dtdy / ht * v t (fst (sol t)) (snd (sol t)))) ->
    norm2 (psub (Q2R2 (rk_iter vel dtdx dtdy tab_RK4 n x0 y0)) (sol (t0 + T)))
      <= exp (T * (Rmax (Q2R dtdx) (Q2R dtdy) / ht * Lip_RK4 (Rmax (Q2R dtdx) (Q2R dtdy)) L2)) * T
         * Cm (Q2R dtdx / ht) (Q2R dtdy / ht) * ht ^ 4.
  Proof.
    intros Hhx Hhy Hht HT Hox Hoy Hp0 HodeX HodeY.
    apply (model_RK4_2d_converges_order4 vel dtdx dtdy x0 y0 f sol ht L2 t0 T n
             Hhx Hhy Hht L2_nonneg4 HT f_lipschitz_2d4).
    - intros k s x y. unfold field2. cbn [fst snd]. apply Hox.
    - intros k s x y. unfold field2. cbn [fst snd]. apply Hoy.
    - exact Hp0.
    - apply (Cm_nonneg4 (Q2R dtdx) (Q2R dtdy) ht Hhx Hht).
    - apply (RK4_grid_truncation_2d_metric sol (Q2R dtdx) (Q2R dtdy) ht t0 T Hhx Hhy Hht
               HodeX HodeY n HT).
  Qed.

  (** ** equal steps hx = hy = ht = h: the system x' = u (t, x, y), y' = v (t, x, y) *)
  Section Simple4.
    Variable sol : R -> pt.
    Variables h t0 T : R.
    Hypothesis Hh : 0 < h.
    Hypothesis HodeX : forall t, t0 <= t <= t0 + T ->
      is_derive (fun r => fst (sol r)) t (u t (fst (sol t)) (snd (sol t))).
    Hypothesis HodeY : forall t, t0 <= t <= t0 + T ->
      is_derive (fun r => snd (sol r)) t (v t (fst (sol t)) (snd (sol t))).

    Lemma simple4_odeX t : t0 <= t <= t0 + T ->
      is_derive (fun r => fst (sol r)) t (h / h * u t (fst (sol t)) (snd (sol t))).
    Proof.
      intros Ht. replace (h / h * u t (fst (sol t)) (snd (sol t)))
                   with (u t (fst (sol t)) (snd (sol t))) by (field; lra).
      apply HodeX. exact Ht.
    Qed.
    Lemma simple4_odeY t : t0 <= t <= t0 + T ->
      is_derive (fun r => snd (sol r)) t (h / h * v t (fst (sol t)) (snd (sol t))).
    Proof.
      intros Ht. replace (h / h * v t (fst (sol t)) (snd (sol t)))
                   with (v t (fst (sol t)) (snd (sol t))) by (field; lra).
      apply HodeY. exact Ht.
    Qed.
    Lemma simple4_Cm : Cm (h / h) (h / h) = C4.
    Proof. replace (h / h) with 1 by (field; lra). apply C_RK4_2d_metric_1. Qed.

    (** LOCAL TRUNCATION ERROR, C * h^5 *)
    Theorem RK4_local_truncation_2d s : t0 <= s -> s + h <= t0 + T ->
      norm2 (psub (psub (sol (s + h)) (sol s)) (pscale2 h h (Phi_RK4_2d f h h h s (sol s))))
        <= C4 * h ^ 5.
    Proof.
      intros H0 H1. rewrite <- simple4_Cm.
      apply (RK4_local_truncation_2d_metric sol h h h t0 T Hh Hh Hh simple4_odeX simple4_odeY s H0 H1).
    Qed.

    Variable n : nat.
    Hypothesis HT : INR n * h = T.

    (** FOURTH-ORDER CONVERGENCE in the plane, no truncation hypothesis *)
    Theorem RK4_converges_general_2d :
      norm2 (psub (one_step_iter2 (Phi_RK4_2d f h h h) h h h t0 n (sol t0)) (sol (t0 + T)))
        <= exp (T * Lip_RK4 h L2) * T * C4 * h ^ 4.
    Proof.
      pose proof (RK4_converges_general_2d_metric sol h h h t0 T Hh Hh Hh simple4_odeX simple4_odeY
                    n HT) as H.
      rewrite simple4_Cm in H. rewrite (Rmax_left h h) in H by lra.
      replace (h / h * Lip_RK4 h L2) with (Lip_RK4 h L2) in H by (field; lra).
      exact H.
    Qed.

    Theorem RK4_converges_general_2d_uniform hmax : h <= hmax ->
      norm2 (psub (one_step_iter2 (Phi_RK4_2d f h h h) h h h t0 n (sol t0)) (sol (t0 + T)))
        <= exp (T * Lip_RK4 hmax L2) * T * C4 * h ^ 4.
    Proof.
      intros Hmax.
      pose proof (RK4_converges_general_2d_metric_uniform sol h h h t0 T Hh Hh Hh
                    simple4_odeX simple4_odeY n HT hmax) as H.
      rewrite simple4_Cm in H. rewrite (Rmax_left h h) in H by lra.
      replace (h / h * Lip_RK4 hmax L2) with (Lip_RK4 hmax L2) in H by (field; lra).
      apply H. exact Hmax.
    Qed.
  End Simple4.
End Plane4.

(** * Part 6: non-vacuity.  The coupled field of RK2Truncation2DProofs.v,
        u = cos t + sin (x - y),   v = cos t - sin (x - y)
    (time-dependent, non-linear, each component depends on both coordinates), with exact solution
    (sin t + atan (exp (2 t)), sin t - atan (exp (2 t))) from (PI/4, -PI/4).
    The family of partial derivatives: for p = 0 (u) or p = 1 (v),
        d_t^i d_x^j d_y^l = [j + l = 0] cos^(i) t + [i = 0] (-1)^(p + l) sin^(j + l) (x - y),
    bounds B0 = 2, B1 = ... = B4 = 1;  C_RK4_2d 2 1 1 1 1 = 14599/192. *)
Definition sgn_pow (l : nat) (w : R) : R := if Nat.even l then w else - w.
Definition exA (i m : nat) : R -> R := match m with O => cosD i | S _ => zf end.
Definition exB (i m l : nat) : R -> R :=
  match i with O => fun w => sgn_pow l (sinD m w) | S _ => zf end.
Definition exF (p : nat) : ffam := fun i j l => sepf (exA i (j + l)) (exB i (j + l) (p + l)).

Lemma sgn_pow_S l w : sgn_pow (S l) w = - sgn_pow l w.
Proof.
  unfold sgn_pow. rewrite Nat.even_succ, <- Nat.negb_even.
  destruct (Nat.even l); cbn [negb]; ring.
Qed.
Lemma Rabs_sgn_pow l w : Rabs (sgn_pow l w) = Rabs w.
Proof. unfold sgn_pow. destruct (Nat.even l). reflexivity. apply Rabs_Ropp. Qed.

Lemma exA_derive i m t : (i < 4)%nat -> is_derive (exA i m) t (exA (S i) m t).
Proof.
  intros Hi. destruct m; cbn [exA]. apply cosD_is_derive. exact Hi. apply zf_is_derive.
Qed.
Lemma exB_derive i m l w : (m < 4)%nat -> is_derive (exB i m l) w (exB i (S m) l w).
Proof.
  intros Hm. destruct i; cbn [exB]; [|apply zf_is_derive].
  pose proof (sinD_is_derive m w Hm) as H. unfold sgn_pow. destruct (Nat.even l).
  - exact H.
  - apply (is_derive_opp (sinD m) w _ H).
Qed.
Lemma exB_S i m l w : exB i m (S l) w = - exB i m l w.
Proof. destruct i; cbn [exB]. apply sgn_pow_S. unfold zf. ring. Qed.

Lemma D3_eq (k : R -> R -> R -> R) t x y a b c a' b' c' :
  D3 k t x y a b c -> a = a' -> b = b' -> c = c' -> D3 k t x y a' b' c'.
Proof. intros H -> -> ->. exact H. Qed.

Lemma exF_smooth p : smooth4 (exF p).
Proof.
  intros i j l t x y Hijl. unfold exF.
  apply (D3_eq _ t x y _ _ _ _ _ _
           (D3_sepf (exA i (j + l)) (exB i (j + l) (p + l)) _ _ t x y
              (exA_derive i (j + l) t ltac:(lia)) (exB_derive i (j + l) (p + l) (x - y) ltac:(lia)))).
  - unfold sepf. cbn [exB]. unfold zf. ring.
  - unfold sepf. cbn [Nat.add exA]. unfold zf. ring.
  - unfold sepf. rewrite !Nat.add_succ_r. cbn [exA]. rewrite exB_S. unfold zf. ring.
Qed.

Lemma nBd_ge1 k : (1 <= k)%nat -> nBd 2 1 1 1 1 k = 1.
Proof. intros Hk. destruct k as [|[|[|[|k]]]]; try reflexivity. lia. Qed.

Lemma exF_bounded p : bounded4 (nBd 2 1 1 1 1) (exF p).
Proof.
  intros i j l t x y Hijl. unfold exF, sepf.
  replace (i + j + l)%nat with (i + (j + l))%nat by lia.
  destruct i as [|i], (j + l)%nat as [|m]; cbn [exA exB].
  - cbn [Nat.add nBd]. eapply Rle_trans. apply Rabs_triang. rewrite Rabs_sgn_pow.
    pose proof (cosD_bound 0 t). pose proof (sinD_bound 0 (x - y)). lra.
  - rewrite nBd_ge1 by lia. unfold zf. rewrite Rplus_0_l, Rabs_sgn_pow. apply sinD_bound.
  - rewrite nBd_ge1 by lia. unfold zf. rewrite Rplus_0_r. apply cosD_bound.
  - rewrite nBd_ge1 by lia. unfold zf. rewrite Rplus_0_r, Rabs_R0. lra.
Qed.

Lemma C_RK4_2d_example : C_RK4_2d 2 1 1 1 1 = 14599 / 192.
Proof. unfold C_RK4_2d, C_RK4a. field. Qed.

(** one step from any point of the exact solution *)
Example RK4_2d_local_example_coupled s h : 0 < h -> 0 <= s ->
  norm2 (psub (psub (ex_sol (s + h)) (ex_sol s))
              (pscale2 h h (Phi_RK4_2d (field2 ex_u ex_v) h h h s (ex_sol s))))
    <= 14599 / 192 * h ^ 5.
Proof.
  intros Hh Hs. rewrite <- C_RK4_2d_example.
  apply (RK4_local_truncation_2d (exF 0) (exF 1) 2 1 1 1 1 (exF_smooth 0) (exF_smooth 1)
           (exF_bounded 0) (exF_bounded 1) ex_sol h 0 (s + h) Hh
           (fun t _ => ex_sol_x_is_derive t) (fun t _ => ex_sol_y_is_derive t) s); lra.
Qed.

(** n steps: fourth-order convergence, closed (no hypotheses beyond 0 < h, n h = T) *)
Example RK4_2d_example_coupled n h T : 0 < h -> INR n * h = T ->
  norm2 (psub (one_step_iter2 (Phi_RK4_2d (field2 ex_u ex_v) h h h) h h h 0 n (PI / 4, - (PI / 4)))
              (sin T + atan (exp (2 * T)), sin T - atan (exp (2 * T))))
    <= exp (T * Lip_RK4 h 2) * T * (14599 / 192) * h ^ 4.
Proof.
  intros Hh HT.
  pose proof (RK4_converges_general_2d (exF 0) (exF 1) 2 1 1 1 1 (exF_smooth 0) (exF_smooth 1)
                (exF_bounded 0) (exF_bounded 1) ex_sol h 0 T Hh
                (fun t _ => ex_sol_x_is_derive t) (fun t _ => ex_sol_y_is_derive t) n HT) as H.
  rewrite ex_sol_0, Rplus_0_l in H. unfold ex_sol at 1 in H.
  replace (L_2d 1 1 1 1) with 2 in H by (unfold L_2d; rewrite Rmax_left by lra; ring).
  rewrite C_RK4_2d_example in H. exact H.
Qed.

Check rk4_2d_combination.
Check rk4_2d_local_algebra.
Check C_RK4_2d_eq.
Check taylor3_k3.
Check GF3_derive.
Check component_truncation_open4.
Check closed_component_bound4.
Check RK4_local_truncation_2d_metric.
Check RK4_converges_general_2d_metric.
Check RK4_converges_general_2d_metric_uniform.
Check model_RK4_converges_general_2d.
Check RK4_local_truncation_2d.
Check RK4_converges_general_2d.
Check RK4_converges_general_2d_uniform.
Check RK4_2d_local_example_coupled.
Check RK4_2d_example_coupled.

Print Assumptions RK4_local_truncation_2d.
Print Assumptions RK4_converges_general_2d.
Print Assumptions RK4_converges_general_2d_metric.
Print Assumptions model_RK4_converges_general_2d.
Print Assumptions RK4_2d_example_coupled.
