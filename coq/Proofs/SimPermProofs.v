(** C14: reordering release rows (of the same step) permutes the particles and changes nothing else. *)
From Coq Require Import ZArith List Bool Lia Permutation.
From Ladim Require Import Base.Num Model.Sim Proofs.SimProofs Proofs.SimIndepProofs.
Import ListNotations.
Open Scope Z_scope.

Section Perm.
  Variables V C : Type.
  Variables release_at release_at' : Z -> list (Z * V).
  Variable forcef : Z -> V -> V.
  Variable cachef : Z -> V -> C.
  Variable trackf : Z -> V -> C -> V * bool.
  Variable ibmf : Z -> V -> V * bool.
  Variable due : Z -> bool.
  Hypothesis Hperm : forall n, Permutation (release_at n) (release_at' n).

  Notation step1 := (sim_step V C release_at forcef cachef trackf ibmf due).
  Notation step2 := (sim_step V C release_at' forcef cachef trackf ibmf due).
  Notation view := (view V).
  Notation vstep := (vstep V C forcef cachef trackf ibmf).

  Lemma view_step (rel : Z -> list (Z * V)) (s : sim V C) n : crashed s = false ->
    view (parts (sim_step V C rel forcef cachef trackf ibmf due s n)) =
    map (vstep n) (filter (fun x => snd x) (view (parts s)) ++ map (fun x => (fst x, snd x, true)) (rel n)).
  Proof.
    intro H. unfold sim_step. rewrite step_spec by exact H. cbn [parts]. unfold after_release.
    rewrite (view_moved_forced V C forcef cachef trackf ibmf), view_app, view_compactify, view_mk_new. reflexivity.
  Qed.

  Lemma step_perm (s1 s2 : sim V C) n : crashed s1 = false -> crashed s2 = false ->
    Permutation (view (parts s1)) (view (parts s2)) ->
    Permutation (view (parts (step1 s1 n))) (view (parts (step2 s2 n))).
  Proof.
    intros H1 H2 P. rewrite !view_step by assumption. apply Permutation_map. apply Permutation_app.
    - clear -P. induction P; cbn [filter].
      + constructor.
      + destruct (snd x); [constructor|]; assumption.
      + destruct (snd x), (snd y); try constructor; try apply Permutation_refl.
      + eapply Permutation_trans; eassumption.
    - apply Permutation_map. apply Hperm.
  Qed.

  (** records as sets of (tag, values) rows *)
  Definition rrows_tv (r : rec V) : list (Z * V) := map (fun x => (snd (fst x), snd x)) (rrows r).
  Lemma rec_step (rel : Z -> list (Z * V)) (s : sim V C) n : crashed s = false ->
    map rrows_tv (recs (sim_step V C rel forcef cachef trackf ibmf due s n)) =
    map rrows_tv (recs s) ++
    (if due n then [map (fun x => (fst (fst x), forcef n (snd (fst x))))
                        (filter (fun x => snd x) (view (parts s)) ++ map (fun x => (fst x, snd x, true)) (rel n))] else []).
  Proof.
    intro H. unfold sim_step. rewrite step_spec by exact H. cbn [recs andb]. destruct (due n); [|rewrite app_nil_r; reflexivity].
    rewrite map_app. f_equal. cbn [map]. f_equal. unfold rrows_tv, snapshot, after_release. cbn [rrows].
    rewrite !map_map.
    rewrite <- (view_compactify V), <- (view_mk_new V _ (npid s)), <- (view_app V).
    unfold SimIndepProofs.view. rewrite map_map. reflexivity.
  Qed.

  Theorem reorder_invariant steps : forall (s1 s2 : sim V C), crashed s1 = false -> crashed s2 = false ->
    Permutation (view (parts s1)) (view (parts s2)) ->
    Forall2 (@Permutation _) (map rrows_tv (recs s1)) (map rrows_tv (recs s2)) ->
    Permutation (view (parts (fold_left step1 steps s1))) (view (parts (fold_left step2 steps s2))) /\
    Forall2 (@Permutation _) (map rrows_tv (recs (fold_left step1 steps s1))) (map rrows_tv (recs (fold_left step2 steps s2))).
  Proof.
    induction steps as [|n steps IH]; intros s1 s2 H1 H2 P R; cbn [fold_left]; [split; assumption|].
    apply IH.
    - apply step_not_crashed. exact H1.
    - apply step_not_crashed. exact H2.
    - apply step_perm; assumption.
    - rewrite !rec_step by assumption. apply Forall2_app; [exact R|].
      destruct (due n); [|constructor]. constructor; [|constructor].
      apply Permutation_map. apply Permutation_app.
      + clear -P. induction P; cbn [filter].
        * constructor.
        * destruct (snd x); [constructor|]; assumption.
        * destruct (snd x), (snd y); try constructor; try apply Permutation_refl.
        * eapply Permutation_trans; eassumption.
      + apply Permutation_map. apply Hperm.
  Qed.

  Corollary reorder_cold N :
    let r1 := cold_run V C release_at forcef cachef trackf ibmf due N in
    let r2 := cold_run V C release_at' forcef cachef trackf ibmf due N in
    Permutation (view (parts r1)) (view (parts r2)) /\
    Forall2 (@Permutation _) (map rrows_tv (recs r1)) (map rrows_tv (recs r2)).
  Proof. unfold cold_run. apply reorder_invariant; try reflexivity; constructor. Qed.
End Perm.
