(** C01 composed with C03: with the velocity the forcing machine supplies at the fractional times of the
    scheme (spatially uniform field), the RK2 and RK4 displacements of a step are the EXACT time integral
    of the time-interpolated forcing over that step ((v(n) + v(n+1))/2 * dt/dx), the EF displacement is
    v(n) * dt/dx — for every frame layout, file split, run length and direction covered by C03. *)
From Coq Require Import ZArith QArith List Bool Lia Lqa.
From Ladim Require Import Base.Num Model.Time Model.ForcingTime Proofs.ForcingTimeProofs Model.Tracker Proofs.TrackerProofs.
Import ListNotations.
Open Scope Q_scope.

Section Uniform.
  Variable st : fstate.
  Variable rv : bool.
  Variables dtdx dtdy xlo xhi ylo yhi : Q.
  Definition fvel (f x y : Q) : Q * Q := (velocity_frac rv st f, 0).

  Lemma vf0 : velocity_frac rv st 0 == (if rv then - u st else u st).
  Proof. unfold velocity_frac. cbn. destruct rv; reflexivity. Qed.
  Lemma vf_half : velocity_frac rv st (1#2) == (if rv then - (u st + (1#2) * dU st) else u st + (1#2) * dU st).
  Proof. unfold velocity_frac. cbn. destruct rv; reflexivity. Qed.
  Lemma vf_one : velocity_frac rv st 1 == (if rv then - (u st + 1 * dU st) else u st + 1 * dU st).
  Proof. unfold velocity_frac. cbn. destruct rv; reflexivity. Qed.

  Definition sgn : Q := if rv then -1 else 1.

  Lemma ef_uniform x y : fst (candidate dtdx dtdy (EF fvel) x y) == x + sgn * u st * dtdx.
  Proof. unfold candidate, EF, fvel, sgn. cbn [fst]. rewrite vf0. destruct rv; ring. Qed.
  Lemma rk2_uniform x y :
    fst (candidate dtdx dtdy (RK2 fvel dtdx dtdy xlo xhi ylo yhi) x y) == x + sgn * (u st + (1#2) * dU st) * dtdx.
  Proof. unfold candidate, RK2, fvel, sgn. cbn [fst snd rkstep clip2]. rewrite vf_half. destruct rv; ring. Qed.
  Lemma rk4_uniform x y :
    fst (candidate dtdx dtdy (RK4 fvel dtdx dtdy xlo xhi ylo yhi) x y) == x + sgn * (u st + (1#2) * dU st) * dtdx.
  Proof.
    unfold candidate, RK4, fvel, sgn, rk4avg. cbn [fst snd rkstep clip2]. rewrite vf0, vf_half, vf_one.
    destruct rv; field.
  Qed.
End Uniform.

(** composed with C03: the state of the forcing machine at step n satisfies u + f dU == interpolation at n+f *)
Theorem rk_exact_time_integral (raw : list frame) (D : disk) (hs rv : bool) (n : Z) (dtdx dtdy xlo xhi ylo yhi x y : Q) :
  nodupb (map fstep raw) = true -> readable raw D = true -> covers raw n = true -> (0 <= n)%Z ->
  exists st v0 v1,
    state_at (mk_tables raw) D hs n = Some st /\
    lerp_spec (upts raw D) (inject_Z n + 0) = Some v0 /\ lerp_spec (upts raw D) (inject_Z n + 1) = Some v1 /\
    let s := (if rv then -1 else 1) in
    fst (candidate dtdx dtdy (EF (fvel st rv)) x y) == x + s * v0 * dtdx /\
    fst (candidate dtdx dtdy (RK2 (fvel st rv) dtdx dtdy xlo xhi ylo yhi) x y) == x + s * ((v0 + v1) / 2) * dtdx /\
    fst (candidate dtdx dtdy (RK4 (fvel st rv) dtdx dtdy xlo xhi ylo yhi) x y) == x + s * ((v0 + v1) / 2) * dtdx.
Proof.
  intros H1 H2 H3 H4.
  destruct (fractional_general raw D hs n 0 H1 H2 H3 H4 ltac:(lra)) as (st & v0 & S0 & L0 & E0).
  destruct (fractional_general raw D hs n 1 H1 H2 H3 H4 ltac:(lra)) as (st' & v1 & S1 & L1 & E1).
  rewrite S0 in S1. injection S1 as <-.
  exists st, v0, v1. split; [exact S0|]. split; [exact L0|]. split; [exact L1|]. cbv zeta.
  rewrite ef_uniform, rk2_uniform, rk4_uniform. unfold sgn.
  split; [|split]; rewrite ?E0, ?E1; destruct rv; field.
Qed.
