(** In every output record of any run the identifiers are strictly increasing and pid[k] >= k
    (C05's last clause, through the real step protocol of Model/Sim.v). *)
From Coq Require Import ZArith List Bool Lia.
From Ladim Require Import Base.Num Model.State Proofs.StateProofs Model.Sim Proofs.SimProofs.
Import ListNotations.
Open Scope Z_scope.

Section Pid.
  Variables V C : Type.
  Variable release_at : Z -> list (Z * V).
  Variable forcef : Z -> V -> V.
  Variable cachef : Z -> V -> C.
  Variable trackf : Z -> V -> C -> V * bool.
  Variable ibmf : Z -> V -> V * bool.
  Variable due : Z -> bool.
  Notation step := (sim_step V C release_at forcef cachef trackf ibmf due).

  Lemma incr_from_filter (f : part V -> bool) l : forall lo,
    incr_from lo (map ppid l) -> incr_from lo (map ppid (filter f l)).
  Proof.
    induction l as [|p l IH]; intros lo H; cbn [filter map]; [exact I|]. cbn [map incr_from] in H. destruct H as [A B].
    destruct (f p); cbn [map incr_from].
    - split; [exact A|]. apply IH. exact B.
    - apply IH. apply incr_from_weaken with (lo := ppid p + 1); [lia|exact B].
  Qed.

  Lemma in_zr n : forall a x, In x (zrange_aux a n) -> a <= x < a + Z.of_nat n.
  Proof.
    induction n as [|n IH]; intros a x H; cbn [zrange_aux In] in H; [contradiction|].
    destruct H as [<-|H]; [lia|]. apply IH in H. lia.
  Qed.

  Definition sorted_ok (s : sim V C) : Prop :=
    crashed s = false /\ 0 <= npid s /\ incr_from 0 (map ppid (parts s)) /\
    Forall (fun q => q < npid s) (map ppid (parts s)) /\
    Forall (fun r : rec V => incr_from 0 (map (fun x => fst (fst x)) (rrows r))) (recs s).

  Lemma after_release_pids (s : sim V C) n :
    map ppid (after_release V C release_at forcef s false n)
    = map ppid (compactify V (parts s)) ++ zrange_aux (npid s) (length (release_at n)).
  Proof. unfold after_release. rewrite map_ppid_forced, map_app, mk_new_pids. reflexivity. Qed.

  Lemma step_sorted s n : sorted_ok s -> sorted_ok (step s n).
  Proof.
    intros (H & N0 & S & B & R).
    assert (incr_from 0 (map ppid (after_release V C release_at forcef s false n))) as SA.
    { rewrite after_release_pids. apply incr_from_app_range; [apply incr_from_filter; exact S| |lia].
      apply Forall_forall. intros q Hq. apply in_map_iff in Hq as (p & <- & Hp). apply filter_In in Hp as [Hp _].
      rewrite Forall_forall in B. apply B. apply in_map. exact Hp. }
    unfold sim_step. rewrite step_spec by exact H. unfold sorted_ok. cbn [parts npid recs crashed].
    split; [reflexivity|]. split; [lia|]. split; [|split].
    - rewrite map_ppid_moved. exact SA.
    - rewrite map_ppid_moved, after_release_pids. apply Forall_app. split.
      + apply Forall_forall. intros q Hq. apply in_map_iff in Hq as (p & <- & Hp). apply filter_In in Hp as [Hp _].
        rewrite Forall_forall in B. specialize (B (ppid p) (in_map ppid _ _ Hp)). lia.
      + apply Forall_forall. intros q Hq. apply in_zr in Hq. lia.
    - destruct (true && due n); [|exact R]. apply Forall_app. split; [exact R|]. constructor; [|constructor].
      unfold snapshot. cbn [rrows]. rewrite map_map. cbn [fst]. exact SA.
  Qed.

  Theorem record_pids_sorted N :
    Forall (fun r : rec V => incr_from 0 (map (fun x => fst (fst x)) (rrows r)))
           (recs (cold_run V C release_at forcef cachef trackf ibmf due N)).
  Proof.
    assert (sorted_ok (sim_init V C)) as G0.
    { unfold sorted_ok, sim_init. cbn. repeat split; try lia; constructor. }
    assert (forall l s, sorted_ok s -> sorted_ok (fold_left step l s)) as F.
    { induction l as [|n l IH]; intros s G; cbn; [exact G|]. apply IH. apply step_sorted. exact G. }
    exact (proj2 (proj2 (proj2 (proj2 (F (zrange 0 N) _ G0))))).
  Qed.
End Pid.
