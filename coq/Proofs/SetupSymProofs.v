(** Closed symmetry theorems about whole set-ups (Model/Setup.v).

    A TIME MAP [phi] (shift by d seconds; mirror image about the start time) is applied to every time of
    the set-up — the clock, every forcing frame of every file, every release row — together with a value
    map [g] on the velocities (identity; sign flip).  If the new clock numbers the image of every time with
    the same step (and puts every step at the image of its time), keeps the three window filters of the
    releaser, simulation order, the time grid, every frequency grid and the np.arange of the ticks of
    continuous release, then — in both release modes — the transformed set-up is
    well-formed when the original is, and its run — compiled by the component MACHINES from the transformed
    files and tables — holds the same particles with the same values in every record.  The advection scheme
    (EF / RK2 / RK4) is carried over unchanged; the time maps act on the step axis as the identity, so the
    specification's flow agrees at every rational point n + f ([sp_uf_tr]), and the value map keeps the sizes of
    the velocities ([P_gabs]), hence [no_clip]. *)
From Coq Require Import ZArith QArith Qabs List Bool Lia.
From Ladim Require Import Base.Num Model.Time Model.ForcingTime Model.Release Model.Sim Model.Setup.
From Ladim Require Import Proofs.SimProofs Proofs.SimRelProofs Proofs.ForcingTimeProofs Proofs.ReleaseProofs
  Proofs.SymmetryProofs Proofs.MirrorForcingProofs Proofs.MirrorReleaseProofs Proofs.SetupProofs.
Import ListNotations.
Open Scope Z_scope.

(** * list facts *)
Lemma filter_map_comm {A B} (p : B -> bool) (f : A -> B) l : filter p (map f l) = map f (filter (fun x => p (f x)) l).
Proof. induction l as [|a l IH]; cbn; [reflexivity|]. destruct (p (f a)); cbn; rewrite IH; reflexivity. Qed.
Lemma flat_map_map_comm {A B C} (h : B -> list C) (f : A -> B) l : flat_map h (map f l) = flat_map (fun x => h (f x)) l.
Proof. induction l as [|a l IH]; cbn; [reflexivity|]. rewrite IH. reflexivity. Qed.
Lemma nth_opt_map {A B} (f : A -> B) l : forall n, nth_opt (map f l) n = option_map f (nth_opt l n).
Proof. induction l as [|a l IH]; intros [|n]; cbn; try reflexivity. apply IH. Qed.
Lemma znth_opt_map {A B} (f : A -> B) l i : znth_opt (map f l) i = option_map f (znth_opt l i).
Proof. unfold znth_opt. destruct (i <? 0); [reflexivity|apply nth_opt_map]. Qed.
Lemma forallb_ext' {A} (p q : A -> bool) l : (forall x, p x = q x) -> forallb p l = forallb q l.
Proof. intro H. induction l as [|a l IH]; cbn; [reflexivity|]. rewrite H, IH. reflexivity. Qed.
Lemma forallb_map' {A B} (p : B -> bool) (f : A -> B) l : forallb p (map f l) = forallb (fun x => p (f x)) l.
Proof. induction l as [|a l IH]; cbn; [reflexivity|]. rewrite IH. reflexivity. Qed.
Lemma map_repeat' {A B} (f : A -> B) x n : map f (repeat x n) = repeat (f x) n.
Proof. induction n as [|n IH]; cbn; [reflexivity|]. rewrite IH. reflexivity. Qed.
Lemma concat_map_map {A B} (f : A -> B) (l : list (list A)) : concat (map (map f) l) = map f (concat l).
Proof. induction l as [|a l IH]; cbn; [reflexivity|]. rewrite map_app, IH. reflexivity. Qed.

Section Transform.
  Variables t t' : tk.
  Variable phi : Z -> Z.
  Variable g : Q -> Q.
  Hypothesis P_step : forall x, time2step t' (phi x) = time2step t x.
  Hypothesis P_s2t : forall n, step2time t' n = phi (step2time t n).
  Hypothesis P_stop : forall x, before_stop t' (phi x) = before_stop t x.
  Hypothesis P_from : forall x, from_start t' (phi x) = from_start t x.
  Hypothesis P_after : forall x, after_start t' (phi x) = after_start t x.
  Hypothesis P_le : forall a b, sim_le t' (phi a) (phi b) = sim_le t a b.
  Hypothesis P_grid : forall x, ((phi x - start t') mod dt t' =? 0) = ((x - start t) mod dt t =? 0).
  Hypothesis P_mod : forall f a b, ((phi b - phi a) mod f =? 0) = ((b - a) mod f =? 0).
  Hypothesis P_arange : forall f a,
    arange (phi a) (stop t') (if rev t' then - f else f) = map phi (arange a (stop t) (if rev t then - f else f)).
  Hypothesis P_inj : forall a b, phi a = phi b -> a = b.
  Hypothesis P_dt : dt t' = dt t.
  Hypothesis P_n : nsteps t' = nsteps t.
  Hypothesis P_lerp : forall pts x,
    opt_rel (fun v w => (w == g v)%Q) (lerp_spec pts x) (lerp_spec (map (fun p => (fst p, g (snd p))) pts) x).
  Hypothesis P_sign : forall v w, (w == g v)%Q ->
    ((if rev t' then - w else w) == (if rev t then - v else v))%Q.
  Hypothesis P_g0 : g 0%Q = 0%Q.
  Hypothesis P_gabs : forall v, (Qabs (g v) == Qabs v)%Q.

  Definition tr_rec (r : record) : record := let '(x, uv, sc) := r in (phi x, g uv, sc).
  Definition tr_row (r : row) : row := {| rt := phi (rt r); rmult := rmult r; rvals := rvals r |}.
  Definition tr_setup (s : setup) : setup :=
    {| s_tk := t'; s_files := map (map tr_rec) (s_files s); s_tab := map tr_row (s_tab s);
       s_cont := s_cont s; s_period := s_period s; s_dtdx := s_dtdx s; s_lo := s_lo s; s_hi := s_hi s;
       s_life := s_life s; s_cfac := s_cfac s; s_land := s_land s; s_adv := s_adv s |}.

  (** the simulated window is kept *)
  Lemma P_win x : in_window t' (phi x) = in_window t x.
  Proof. rewrite <- !window_bools, P_stop, P_from. reflexivity. Qed.

  (** ** forcing: same frames at the same steps, values mapped by g *)
  Lemma scan_file_tr k recs : forall i, scan_file t' k i (map tr_rec recs) = scan_file t k i recs.
  Proof.
    induction recs as [|[[x uv] sc] r IH]; intro i; cbn; [reflexivity|]. rewrite P_step, IH. reflexivity.
  Qed.
  Lemma scan_files_tr files : forall k, scan_files t' k (map (map tr_rec) files) = scan_files t k files.
  Proof. induction files as [|f r IH]; intro k; cbn; [reflexivity|]. rewrite scan_file_tr, IH. reflexivity. Qed.
  Lemma scan_tr files : scan t' (map (map tr_rec) files) = scan t files.
  Proof. apply scan_files_tr. Qed.

  Definition gfst (p : Q * Q) : Q * Q := (g (fst p), snd p).
  Lemma disk_tr files k i : disk_of (map (map tr_rec) files) k i = option_map gfst (disk_of files k i).
  Proof.
    unfold disk_of. rewrite znth_opt_map. destruct (znth_opt files k) as [f|]; cbn; [|reflexivity].
    rewrite znth_opt_map. destruct (znth_opt f i) as [[[x uv] sc]|]; reflexivity.
  Qed.

  Section Disk.
    Variables (raw : list frame) (D D' : disk).
    Hypothesis HD : forall k i, D' k i = option_map gfst (D k i).
    Lemma frame_val_tr s : frame_val raw D' s = gfst (frame_val raw D s).
    Proof.
      unfold frame_val. destruct (lookup raw s) as [fr|]; [|unfold gfst; cbn; rewrite P_g0; reflexivity].
      rewrite HD. destruct (D (ffile fr) (fidx fr)) as [p|]; cbn; [reflexivity|].
      unfold gfst; cbn; rewrite P_g0; reflexivity.
    Qed.
    Lemma upts_tr : upts raw D' = map (fun p => (fst p, g (snd p))) (upts raw D).
    Proof.
      unfold upts. rewrite map_map. apply map_ext. intro s. unfold uval. rewrite frame_val_tr. reflexivity.
    Qed.
    Lemma spts_tr : spts raw D' = spts raw D.
    Proof. unfold spts. apply map_ext. intro s. unfold sval. rewrite frame_val_tr. reflexivity. Qed.
    Lemma readable_tr : readable raw D' = readable raw D.
    Proof.
      unfold readable. apply forallb_ext'. intro fr. rewrite HD. destruct (D (ffile fr) (fidx fr)); reflexivity.
    Qed.
  End Disk.

  (** ** release: the rows of a step are the images of the rows of that step *)
  Lemma released_at_tr tab n : released_at t' (map tr_row tab) n = map tr_row (released_at t tab n).
  Proof.
    unfold released_at, released_by. rewrite filter_map_comm, flat_map_map_comm.
    cbn [tr_row rt rmult].
    erewrite filter_ext; [|intro r; rewrite P_win, P_step; reflexivity].
    induction (filter _ tab) as [|r l IH]; cbn; [reflexivity|].
    rewrite map_app, IH. f_equal. rewrite map_repeat'. reflexivity.
  Qed.
  Lemma row_part_tr r : row_part (tr_row r) = row_part r.
  Proof. reflexivity. Qed.

  (** filters, groups, distinct times *)
  Lemma filter_time_tr' p q tab : (forall x, q (phi x) = p x) ->
    filter_time q (map tr_row tab) = map tr_row (filter_time p tab).
  Proof.
    intro H. unfold filter_time. rewrite filter_map_comm. f_equal. apply filter_ext. intro r. cbn. apply H.
  Qed.
  Lemma eqb_tr a b : (phi a =? phi b) = (a =? b).
  Proof.
    destruct (Z.eqb_spec a b) as [->|N]; [apply Z.eqb_refl|]. apply Z.eqb_neq. intro E. apply N, P_inj, E.
  Qed.
  Lemma rows_at_tr x tab : rows_at (phi x) (map tr_row tab) = map tr_row (rows_at x tab).
  Proof. unfold rows_at. apply filter_time_tr'. intro y. apply eqb_tr. Qed.
  Lemma uniq_tr l : uniq (map phi l) = map phi (uniq l).
  Proof.
    induction l as [|x l IH]; cbn [map uniq]; [reflexivity|]. f_equal. rewrite IH, filter_map_comm. f_equal.
    apply filter_ext. intro y. rewrite eqb_tr. reflexivity.
  Qed.
  Lemma map_rt_tr tab : map rt (map tr_row tab) = map phi (map rt tab).
  Proof. rewrite !map_map. reflexivity. Qed.
  Lemma group_by_time_tr tab : group_by_time (map tr_row tab) = map (map tr_row) (group_by_time tab).
  Proof.
    unfold group_by_time. rewrite map_rt_tr, uniq_tr, !map_map. apply map_ext. intro x. apply rows_at_tr.
  Qed.
  Lemma steps_tr tab :
    map (time2step t') (uniq (map rt (map tr_row tab))) = map (time2step t) (uniq (map rt tab)).
  Proof. rewrite map_rt_tr, uniq_tr, map_map. apply map_ext. intro x. apply P_step. Qed.
  Lemma retime_tr x gr : map (retime (phi x)) (map tr_row gr) = map tr_row (map (retime x) gr).
  Proof. rewrite !map_map. apply map_ext. intro r. reflexivity. Qed.
  Lemma expand_tr gr : expand (map tr_row gr) = map tr_row (expand gr).
  Proof.
    unfold expand. rewrite flat_map_map_comm. induction gr as [|r gr IH]; [reflexivity|]. cbn [flat_map].
    rewrite map_app, <- IH, map_repeat'. reflexivity.
  Qed.

  (** continuous release: discretize() yields the images of the rows it yields for the original *)
  Lemma lookup_group_tr tab x :
    lookup_group (map tr_row tab) (phi x) = option_map (map tr_row) (lookup_group tab x).
  Proof. unfold lookup_group. rewrite rows_at_tr. destruct (rows_at x tab); reflexivity. Qed.
  Lemma join_ffill_tr tab ticks : forall last,
    join_ffill (map tr_row tab) (option_map (map tr_row) last) (map phi ticks) = map tr_row (join_ffill tab last ticks).
  Proof.
    induction ticks as [|x r IH]; intro last; [reflexivity|]. cbn [map join_ffill].
    rewrite lookup_group_tr.
    set (cur := match lookup_group tab x with Some g => Some g | None => last end).
    assert (match option_map (map tr_row) (lookup_group tab x) with
            | Some g => Some g | None => option_map (map tr_row) last end = option_map (map tr_row) cur) as ->
      by (unfold cur; destruct (lookup_group tab x); reflexivity).
    rewrite IH, map_app. f_equal. destruct cur; cbn [option_map]; [apply retime_tr|reflexivity].
  Qed.
  Lemma discretize_tr f tab : discretize t' f (map tr_row tab) = map tr_row (discretize t f tab).
  Proof.
    unfold discretize. destruct tab as [|r0 tab]; [reflexivity|].
    change (map tr_row (r0 :: tab)) with (tr_row r0 :: map tr_row tab). cbv iota.
    change (tr_row r0 :: map tr_row tab) with (map tr_row (r0 :: tab)).
    change (rt (tr_row r0)) with (phi (rt r0)). rewrite P_arange.
    exact (join_ffill_tr (r0 :: tab) _ None).
  Qed.

  (** start-up of the releaser (both modes, cold or warm): refused iff the original is; the images of the
      rows in the same groups; the SAME list of release steps *)
  Definition tr_res (r : init_res) : init_res :=
    match r with
    | RelExit => RelExit
    | RelOk tab groups steps => RelOk (map tr_row tab) (map (map tr_row) groups) steps
    end.
  Theorem rel_init_tr c warm tab : rel_init t' c warm (map tr_row tab) = tr_res (rel_init t c warm tab).
  Proof.
    unfold rel_init. rewrite (filter_time_tr' (before_stop t) (before_stop t')) by exact P_stop.
    destruct (filter_time (before_stop t) tab) as [|r0 d1]; [reflexivity|].
    change (map tr_row (r0 :: d1)) with (tr_row r0 :: map tr_row d1). cbv iota zeta.
    change (tr_row r0 :: map tr_row d1) with (map tr_row (r0 :: d1)).
    set (d2 := match c with Some f => discretize t f (r0 :: d1) | None => r0 :: d1 end).
    assert (match c with Some f => discretize t' f (map tr_row (r0 :: d1)) | None => map tr_row (r0 :: d1) end
            = map tr_row d2) as -> by (unfold d2; destruct c; [apply discretize_tr|reflexivity]).
    rewrite (filter_time_tr' (from_start t) (from_start t')) by exact P_from.
    set (d3 := filter_time (from_start t) d2).
    set (d4 := if warm then filter_time (after_start t) d3 else d3).
    assert ((if warm then filter_time (after_start t') (map tr_row d3) else map tr_row d3) = map tr_row d4) as ->
      by (unfold d4; destruct warm; [apply filter_time_tr'; exact P_after|reflexivity]).
    clearbody d4. rewrite group_by_time_tr, steps_tr.
    destruct d4 as [|r d4']; destruct warm; reflexivity.
  Qed.

  (** the specification of continuous release *)
  Lemma later_tr x best y : later t' (phi x) (option_map phi best) (phi y) = option_map phi (later t x best y).
  Proof.
    unfold later. rewrite P_le. destruct (sim_le t y x); [|reflexivity].
    destruct best as [b|]; cbn [option_map]; [|reflexivity]. rewrite P_le. destruct (sim_le t b y); reflexivity.
  Qed.
  Lemma latest_tr tab x : latest t' (map tr_row tab) (phi x) = option_map phi (latest t tab x).
  Proof.
    unfold latest. rewrite map_rt_tr. change (@None Z) with (option_map phi None) at 1.
    generalize (@None Z). induction (map rt tab) as [|y l IH]; intro best; [reflexivity|].
    cbn [map fold_left]. rewrite later_tr. apply IH.
  Qed.
  Lemma is_tick_tr f a x : is_tick t' f (phi a) (phi x) = is_tick t f a x.
  Proof. unfold is_tick. rewrite P_le, P_mod, P_stop. reflexivity. Qed.
  Lemma the_start_tr warm x : the_start t' warm (phi x) = the_start t warm x.
  Proof. destruct warm; cbn [the_start]; [apply P_after|apply P_from]. Qed.
  Lemma cont_released_at_tr f warm tab n :
    cont_released_at t' f warm (map tr_row tab) n = map tr_row (cont_released_at t f warm tab n).
  Proof.
    unfold cont_released_at. rewrite (filter_time_tr' (before_stop t) (before_stop t')) by exact P_stop.
    destruct (filter_time (before_stop t) tab) as [|r0 W]; [reflexivity|].
    change (map tr_row (r0 :: W)) with (tr_row r0 :: map tr_row W). cbv iota zeta.
    change (tr_row r0 :: map tr_row W) with (map tr_row (r0 :: W)).
    change (rt (tr_row r0)) with (phi (rt r0)).
    rewrite P_s2t, is_tick_tr, the_start_tr.
    destruct (is_tick t f (rt r0) (step2time t n) && the_start t warm (step2time t n)); [|reflexivity].
    rewrite latest_tr. destruct (latest t (r0 :: W) (step2time t n)) as [y|]; cbn [option_map]; [|reflexivity].
    rewrite rows_at_tr, retime_tr, expand_tr. reflexivity.
  Qed.

  (** ** well-formedness is preserved *)
  Lemma filter_time_tr tab : filter_time (in_window t') (map tr_row tab) = map tr_row (filter_time (in_window t) tab).
  Proof. apply filter_time_tr'. exact P_win. Qed.
  Lemma sim_sorted_tr l : sim_sorted t' (map phi l) = sim_sorted t l.
  Proof.
    induction l as [|x r IH]; [reflexivity|]. cbn [map sim_sorted]. rewrite IH.
    destruct r as [|y r']; [reflexivity|]. cbn [map]. rewrite P_le. reflexivity.
  Qed.
  Lemma table_ok_tr l : table_ok t' (map tr_row l) = table_ok t l.
  Proof.
    unfold table_ok. rewrite map_map. cbn [tr_row rt]. rewrite <- (map_map rt phi), sim_sorted_tr. f_equal.
    rewrite forallb_map'. apply forallb_ext'. intro r. unfold Release.on_grid. cbn. apply P_grid.
  Qed.
  Lemma freq_grid_tr f tab : freq_grid f (map tr_row tab) = freq_grid f tab.
  Proof.
    unfold freq_grid. destruct tab as [|r0 tab]; [reflexivity|].
    change (map tr_row (r0 :: tab)) with (tr_row r0 :: map tr_row tab). cbv iota.
    change (tr_row r0 :: map tr_row tab) with (map tr_row (r0 :: tab)).
    rewrite forallb_map'. apply forallb_ext'. intro r. cbn [tr_row rt]. apply P_mod.
  Qed.
  Lemma cont_ok_tr f tab : cont_ok t' f (map tr_row tab) = cont_ok t f tab.
  Proof.
    unfold cont_ok. rewrite (filter_time_tr' (before_stop t) (before_stop t')) by exact P_stop.
    rewrite map_rt_tr, sim_sorted_tr, freq_grid_tr, P_dt. f_equal.
    destruct (filter_time (before_stop t) tab) as [|r0 W]; [reflexivity|].
    cbn [map tr_row rt]. unfold Release.on_grid. apply P_grid.
  Qed.
  Lemma tab_ok_tr s : s_tk s = t -> tab_ok (tr_setup s) = tab_ok s.
  Proof.
    intro E. unfold tab_ok. cbn [tr_setup s_tk s_tab s_cont]. rewrite E.
    destruct (s_cont s) as [f|]; [apply cont_ok_tr|]. rewrite filter_time_tr. apply table_ok_tr.
  Qed.
  Lemma started_tr s : s_tk s = t -> started (tr_setup s) = started s.
  Proof.
    intro E. unfold started. cbn [tr_setup s_tk s_tab s_cont]. rewrite E, rel_init_tr.
    destruct (rel_init t (s_cont s) false (s_tab s)); reflexivity.
  Qed.
  Lemma layout_times_tr files : layout_times (map (map tr_rec) files) = map phi (layout_times files).
  Proof.
    unfold layout_times. rewrite concat_map_map, !map_map. apply map_ext. intros [[x uv] sc]. reflexivity.
  Qed.
  Lemma memb_tr x l : memb (phi x) (map phi l) = memb x l.
  Proof.
    unfold memb. induction l as [|y r IH]; [reflexivity|]. cbn. rewrite IH. f_equal.
    destruct (Z.eqb_spec (phi x) (phi y)) as [E|E], (Z.eqb_spec x y) as [E'|E']; try reflexivity.
    - apply P_inj in E. contradiction.
    - subst. contradiction.
  Qed.
  Lemma nodupb_tr l : nodupb (map phi l) = nodupb l.
  Proof. induction l as [|x r IH]; [reflexivity|]. cbn. rewrite memb_tr, IH. reflexivity. Qed.
  Lemma on_grid_tr files : ForcingTime.on_grid t' (map (map tr_rec) files) = ForcingTime.on_grid t files.
  Proof.
    unfold ForcingTime.on_grid. rewrite layout_times_tr, forallb_map'. apply forallb_ext'. intro x. apply P_grid.
  Qed.

  (** the velocities keep their sizes: the scheme's stage positions stay unclipped *)
  Lemma disp_le_tr s b : disp_le (tr_setup s) b = disp_le s b.
  Proof.
    unfold disp_le. cbn [tr_setup s_files s_cfac s_dtdx]. rewrite concat_map_map, forallb_map'.
    apply forallb_ext'. intros [[x uv] sc]. cbn [tr_rec fst snd]. apply forallb_ext'. intro cf.
    rewrite (P_gabs uv). reflexivity.
  Qed.
  Lemma no_clip_tr s : no_clip (tr_setup s) = no_clip s.
  Proof. unfold no_clip. rewrite !disp_le_tr. reflexivity. Qed.

  Lemma setup_ok_tr s : s_tk s = t -> setup_ok (tr_setup s) = setup_ok s.
  Proof.
    intro E. unfold setup_ok. rewrite (started_tr s E), (tab_ok_tr s E), no_clip_tr.
    unfold s_raw, s_nsteps. cbn [tr_setup s_tk s_files s_tab]. rewrite E.
    rewrite scan_tr, on_grid_tr, layout_times_tr, nodupb_tr, P_dt, P_n. reflexivity.
  Qed.

  (** ** the specification environments agree *)
  Lemma sp_uf_tr s n f : s_tk s = t -> (sp_uf s n f == sp_uf (tr_setup s) n f)%Q.
  Proof.
    intro E. unfold sp_uf, s_raw, s_disk. cbn [tr_setup s_tk s_files]. rewrite E, scan_tr.
    rewrite (upts_tr (scan t (s_files s)) (disk_of (s_files s)) _ (disk_tr (s_files s))).
    pose proof (P_lerp (upts (scan t (s_files s)) (disk_of (s_files s))) (inject_Z n + f)%Q) as H.
    destruct (lerp_spec (upts _ _) _) as [v|]; destruct (lerp_spec (map _ _) _) as [w|]; cbn in H; try contradiction.
    - symmetry. apply P_sign. exact H.
    - reflexivity.
  Qed.
  Lemma sp_temp_tr s n : s_tk s = t -> sp_temp (tr_setup s) n = sp_temp s n.
  Proof.
    intro E. unfold sp_temp, s_raw, s_disk. cbn [tr_setup s_tk s_files]. rewrite E, scan_tr.
    rewrite (spts_tr (scan t (s_files s)) (disk_of (s_files s)) _ (disk_tr (s_files s))). reflexivity.
  Qed.
  Lemma sp_release_tr s n : s_tk s = t -> sp_release (tr_setup s) n = sp_release s n.
  Proof.
    intro E. unfold sp_release, sp_rows. cbn [tr_setup s_tk s_tab s_cont]. rewrite E.
    destruct (s_cont s) as [f|]; [rewrite cont_released_at_tr|rewrite released_at_tr]; rewrite map_map;
      apply map_ext; intro r; apply row_part_tr.
  Qed.

  (** ** the transformed set-up is well-formed and runs alike *)
  Theorem transformed_runs_alike s : s_tk s = t -> setup_ok s = true ->
    setup_ok (tr_setup s) = true /\ srel pv pv Z pv_eq (m_run s) (m_run (tr_setup s)).
  Proof.
    intros E Hok. assert (setup_ok (tr_setup s) = true) as Hok' by (rewrite (setup_ok_tr s E); exact Hok).
    split; [exact Hok'|].
    apply runs_alike; try assumption.
    - unfold phys_eq. cbn. repeat split; reflexivity.
    - unfold s_nsteps. cbn [tr_setup s_tk]. rewrite E. exact P_n.
    - intros n f _. apply sp_uf_tr. exact E.
    - intros n _. rewrite (sp_temp_tr s n E). reflexivity.
    - intros n _. symmetry. apply sp_release_tr. exact E.
  Qed.
End Transform.

(** * Instance 1: time shift (C14) *)
Lemma before_stop_shift t d x : before_stop (shift_tk t d) (x + d) = before_stop t x.
Proof.
  unfold before_stop, shift_tk. cbn [start stop dt ref rev]. destruct (rev t).
  - destruct (Z.ltb_spec (stop t + d) (x + d)), (Z.ltb_spec (stop t) x); try reflexivity; lia.
  - destruct (Z.ltb_spec (x + d) (stop t + d)), (Z.ltb_spec x (stop t)); try reflexivity; lia.
Qed.
Lemma from_start_shift t d x : from_start (shift_tk t d) (x + d) = from_start t x.
Proof.
  unfold from_start, shift_tk. cbn [start stop dt ref rev]. destruct (rev t).
  - destruct (Z.leb_spec (x + d) (start t + d)), (Z.leb_spec x (start t)); try reflexivity; lia.
  - destruct (Z.leb_spec (start t + d) (x + d)), (Z.leb_spec (start t) x); try reflexivity; lia.
Qed.
Lemma after_start_shift t d x : after_start (shift_tk t d) (x + d) = after_start t x.
Proof.
  unfold after_start, shift_tk. cbn [start stop dt ref rev]. destruct (rev t).
  - destruct (Z.ltb_spec (x + d) (start t + d)), (Z.ltb_spec x (start t)); try reflexivity; lia.
  - destruct (Z.ltb_spec (start t + d) (x + d)), (Z.ltb_spec (start t) x); try reflexivity; lia.
Qed.
Lemma mod_shift (d f a b : Z) : ((b + d - (a + d)) mod f =? 0) = ((b - a) mod f =? 0).
Proof. replace (b + d - (a + d)) with (b - a) by lia. reflexivity. Qed.
Lemma arange_aux_shift d n : forall a s, arange_aux n (a + d) s = map (fun x => x + d) (arange_aux n a s).
Proof.
  induction n as [|n IH]; intros a s; [reflexivity|]. cbn [arange_aux map]. f_equal.
  replace (a + d + s) with (a + s + d) by lia. apply IH.
Qed.
Lemma arange_shift t d f a :
  arange (a + d) (stop (shift_tk t d)) (if rev (shift_tk t d) then - f else f) =
  map (fun x => x + d) (arange a (stop t) (if rev t then - f else f)).
Proof.
  unfold shift_tk. cbn [stop rev]. generalize (if rev t then - f else f). intro s. unfold arange.
  replace (stop t + d - (a + d)) with (stop t - a) by lia. replace (a + d - (stop t + d)) with (a - stop t) by lia.
  destruct (0 <? s); [apply arange_aux_shift|]. destruct (s <? 0); [apply arange_aux_shift|reflexivity].
Qed.
Lemma sim_le_shift t d a b : sim_le (shift_tk t d) (a + d) (b + d) = sim_le t a b.
Proof.
  unfold sim_le, shift_tk. cbn [rev]. destruct (rev t).
  - destruct (Z.leb_spec (b + d) (a + d)), (Z.leb_spec b a); try reflexivity; lia.
  - destruct (Z.leb_spec (a + d) (b + d)), (Z.leb_spec a b); try reflexivity; lia.
Qed.
Lemma map_pair_id (pts : list (Z * Q)) : map (fun p => (fst p, snd p)) pts = pts.
Proof. induction pts as [|[a b] r IH]; cbn; [reflexivity|]. rewrite IH. reflexivity. Qed.
Lemma opt_rel_refl (o : option Q) : opt_rel (fun v w => (w == v)%Q) o o.
Proof. destruct o; cbn; [reflexivity|exact I]. Qed.
Lemma grid_shift t d x :
  ((x + d - start (shift_tk t d)) mod dt (shift_tk t d) =? 0) = ((x - start t) mod dt t =? 0).
Proof. unfold shift_tk. cbn [start dt]. replace (x + d - (start t + d)) with (x - start t) by lia. reflexivity. Qed.
Lemma lerp_id pts x : opt_rel (fun v w => (w == v)%Q) (lerp_spec pts x) (lerp_spec (map (fun p => (fst p, snd p)) pts) x).
Proof. rewrite map_pair_id. apply opt_rel_refl. Qed.
Lemma sign_shift t d v w : (w == v)%Q ->
  ((if rev (shift_tk t d) then - w else w) == (if rev t then - v else v))%Q.
Proof. intro H. unfold shift_tk. cbn [rev]. destruct (rev t); rewrite H; reflexivity. Qed.
Lemma sign_mirror t v w : (w == - v)%Q ->
  ((if rev (mirror_tk t) then - w else w) == (if rev t then - v else v))%Q.
Proof. intro H. unfold mirror_tk. cbn [rev]. destruct (rev t); cbn [negb]; rewrite H; ring. Qed.
Lemma shift_inj (d a b : Z) : a + d = b + d -> a = b.
Proof. lia. Qed.
Lemma mirror_inj t a b : mirror_time t a = mirror_time t b -> a = b.
Proof. unfold mirror_time. lia. Qed.

(** T-shift: shift EVERY time of a well-formed set-up by any number of seconds d (start, stop, reference,
    every frame of every forcing file, every release row): the shifted set-up is well-formed and its run
    holds the same particles with the same values (up to == on rationals) after the last step and in every
    record — same pids, same record steps, same number of records *)
Theorem shift_invariance s d : setup_ok s = true ->
  setup_ok (shift_setup s d) = true /\ srel pv pv Z pv_eq (m_run s) (m_run (shift_setup s d)).
Proof.
  intro Hok.
  exact (transformed_runs_alike (s_tk s) (shift_tk (s_tk s) d) (fun x => x + d) (fun uv => uv)
           (time2step_shift (s_tk s) d) (step2time_shift (s_tk s) d)
           (before_stop_shift (s_tk s) d) (from_start_shift (s_tk s) d) (after_start_shift (s_tk s) d)
           (sim_le_shift (s_tk s) d) (grid_shift (s_tk s) d) (mod_shift d) (arange_shift (s_tk s) d)
           (shift_inj d) eq_refl (nsteps_shift (s_tk s) d)
           lerp_id (sign_shift (s_tk s) d) eq_refl (fun v => Qeq_refl (Qabs v))
           s eq_refl Hok).
Qed.

(** * Instance 2: time mirror (C10) *)
Lemma sim_le_mirror t a b : sim_le (mirror_tk t) (mirror_time t a) (mirror_time t b) = sim_le t a b.
Proof.
  unfold sim_le, mirror_tk, mirror_time. cbn [start rev]. destruct (rev t); cbn [negb].
  - destruct (Z.leb_spec (2 * start t - a) (2 * start t - b)), (Z.leb_spec b a); try reflexivity; lia.
  - destruct (Z.leb_spec (2 * start t - b) (2 * start t - a)), (Z.leb_spec a b); try reflexivity; lia.
Qed.
Lemma mod_opp_eqb (x f : Z) : ((- x) mod f =? 0) = (x mod f =? 0).
Proof.
  destruct (Z.eq_dec f 0) as [E|E].
  - rewrite E, !Zmod_0_r. destruct (Z.eqb_spec (- x) 0), (Z.eqb_spec x 0); try reflexivity; lia.
  - destruct (Z.eqb_spec (x mod f) 0) as [H|H].
    + rewrite Z.mod_opp_l_z by assumption. reflexivity.
    + destruct (Z.eqb_spec ((- x) mod f) 0) as [H'|H']; [|reflexivity].
      exfalso. apply H. rewrite <- (Z.opp_involutive x). apply Z.mod_opp_l_z; assumption.
Qed.
Lemma grid_mirror t x :
  ((mirror_time t x - start (mirror_tk t)) mod dt (mirror_tk t) =? 0) = ((x - start t) mod dt t =? 0).
Proof.
  unfold mirror_tk, mirror_time. cbn [start dt].
  replace (2 * start t - x - start t) with (- (x - start t)) by lia. apply mod_opp_eqb.
Qed.
Lemma mod_mirror t (f a b : Z) : ((mirror_time t b - mirror_time t a) mod f =? 0) = ((b - a) mod f =? 0).
Proof.
  unfold mirror_time. replace (2 * start t - b - (2 * start t - a)) with (- (b - a)) by lia. apply mod_opp_eqb.
Qed.
Lemma arange_aux_neg c n : forall a s, arange_aux n (c - a) (- s) = map (fun x => c - x) (arange_aux n a s).
Proof.
  induction n as [|n IH]; intros a s; [reflexivity|]. cbn [arange_aux map]. f_equal.
  replace (c - a + - s) with (c - (a + s)) by lia. apply IH.
Qed.
Lemma arange_mirror t f a :
  arange (mirror_time t a) (stop (mirror_tk t)) (if rev (mirror_tk t) then - f else f) =
  map (mirror_time t) (arange a (stop t) (if rev t then - f else f)).
Proof.
  unfold mirror_tk. cbn [stop rev].
  assert ((if negb (rev t) then - f else f) = - (if rev t then - f else f)) as -> by (destruct (rev t); cbn [negb]; lia).
  generalize (if rev t then - f else f). intro s. unfold arange, mirror_time.
  replace (2 * start t - stop t - (2 * start t - a)) with (a - stop t) by lia.
  replace (2 * start t - a - (2 * start t - stop t)) with (stop t - a) by lia.
  rewrite Z.opp_involutive.
  destruct (Z.ltb_spec 0 s) as [P|P].
  - assert (0 <? - s = false) as -> by (apply Z.ltb_ge; lia). assert (- s <? 0 = true) as -> by (apply Z.ltb_lt; lia).
    apply arange_aux_neg.
  - destruct (Z.ltb_spec s 0) as [N|N].
    + assert (0 <? - s = true) as -> by (apply Z.ltb_lt; lia). apply arange_aux_neg.
    + assert (0 <? - s = false) as -> by (apply Z.ltb_ge; lia). assert (- s <? 0 = false) as -> by (apply Z.ltb_ge; lia).
      reflexivity.
Qed.

(** T-mirror: replace the clock by the clock of the opposite direction over the mirrored time axis
    (x |-> 2*start - x), put every forcing frame and every release row at its mirror time and flip the sign
    of every velocity: the mirrored set-up is well-formed, and its run holds the same particles at the same
    positions in every record.  For a reversed set-up this is the statement "backward tracking = forward
    tracking in the time-mirrored, sign-flipped flow" about file layouts, release tables and clocks. *)
Theorem mirror_invariance s : setup_ok s = true ->
  setup_ok (mirror_setup s) = true /\ srel pv pv Z pv_eq (m_run s) (m_run (mirror_setup s)).
Proof.
  intro Hok.
  exact (transformed_runs_alike (s_tk s) (mirror_tk (s_tk s)) (mirror_time (s_tk s)) Qopp
           (time2step_mirror (s_tk s)) (step2time_mirror (s_tk s))
           (before_stop_mirror (s_tk s)) (from_start_mirror (s_tk s)) (after_start_mirror (s_tk s))
           (sim_le_mirror (s_tk s)) (grid_mirror (s_tk s)) (mod_mirror (s_tk s)) (arange_mirror (s_tk s))
           (mirror_inj (s_tk s)) eq_refl (nsteps_mirror (s_tk s))
           lerp_spec_neg (sign_mirror (s_tk s)) eq_refl Qabs_opp
           s eq_refl Hok).
Qed.
