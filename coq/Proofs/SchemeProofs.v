(** Order conditions and exactness laws of the advection schemes (C01) *)
From Coq Require Import ZArith QArith List Bool Lia Lqa.
From Ladim Require Import Base.Num Model.Tracker Proofs.TrackerProofs.
Import ListNotations.
Open Scope Q_scope.

(** * Butcher order conditions, as computable checks on a tableau *)
Fixpoint qsum (l : list Q) : Q := match l with [] => 0 | x :: r => x + qsum r end.
Definition pw (l : list Q) (n : nat) : list Q := map (fun c => Qpower c (Z.of_nat n)) l.
Definition mulv (a b : list Q) : list Q := map (fun p => fst p * snd p) (combine a b).
Definition matv (A : list (list Q)) (v : list Q) : list Q := map (fun row => dot row v) A.
Definition row_sums_ok (t : tableau) : bool :=
  forallb (fun p => Qeq_bool (fst p) (qsum (snd p))) (combine (tc t) (ta t)).
Definition order1 (t : tableau) : bool := row_sums_ok t && Qeq_bool (qsum (tb t)) 1.
Definition order2 (t : tableau) : bool := order1 t && Qeq_bool (dot (tb t) (tc t)) (1#2).
Definition order3 (t : tableau) : bool :=
  order2 t && Qeq_bool (dot (tb t) (pw (tc t) 2)) (1#3) && Qeq_bool (dot (tb t) (matv (ta t) (tc t))) (1#6).
Definition order4 (t : tableau) : bool :=
  order3 t && Qeq_bool (dot (tb t) (pw (tc t) 3)) (1#4)
  && Qeq_bool (dot (tb t) (mulv (tc t) (matv (ta t) (tc t)))) (1#8)
  && Qeq_bool (dot (tb t) (matv (ta t) (pw (tc t) 2))) (1#12)
  && Qeq_bool (dot (tb t) (matv (ta t) (matv (ta t) (tc t)))) (1#24).

Lemma tableau_orders :
  order1 tab_EF = true /\ order2 tab_EF = false /\
  order2 tab_RK2 = true /\ order3 tab_RK2 = false /\
  order4 tab_RK4 = true.
Proof. vm_compute. repeat split. Qed.

(** the one-parameter family of ladim.analytical.get_velocity2: c = (0, s), a21 = s, b = (1 - 1/(2s), 1/(2s)) *)
Definition tab_gv2 (s : Q) : tableau := {| tc := [0; s]; ta := [[]; [s]]; tb := [1 - 1 / (2 * s); 1 / (2 * s)] |}.
Lemma gv2_order2 s : ~ s == 0 ->
  qsum (tb (tab_gv2 s)) == 1 /\ dot (tb (tab_gv2 s)) (tc (tab_gv2 s)) == 1#2.
Proof. intro H. cbn. split; field; exact H. Qed.

(** * exactness on linear fields u = lam*x + mu: the step is the degree-p Taylor polynomial of the
    exact solution of dx/dt = (lam*x + mu)*dtdx over one step, z = lam*dtdx *)
Section Linear.
  Variables lam mu dtdx dtdy : Q.
  Definition vlin (f x y : Q) : Q * Q := (lam * x + mu, 0).
  Let z := lam * dtdx.
  Lemma ef_linear x y : fst (rk_generic vlin dtdx dtdy tab_EF x y) == x + (lam * x + mu) * dtdx.
  Proof. unfold rk_generic. cbn. ring. Qed.
  Lemma rk2_linear x y :
    fst (rk_generic vlin dtdx dtdy tab_RK2 x y) == x + (lam * x + mu) * dtdx * (1 + z / 2).
  Proof. unfold rk_generic, z. cbn. field. Qed.
  Lemma rk4_linear x y :
    fst (rk_generic vlin dtdx dtdy tab_RK4 x y) ==
    x + (lam * x + mu) * dtdx * (1 + z / 2 + z * z / 6 + z * z * z / 24).
  Proof. unfold rk_generic, z. cbn. field. Qed.
End Linear.

(** * exactness as quadrature on fields depending on time only: EF/RK2/RK4 integrate polynomials
    of degree 0/1/3 exactly over the step (RK4 = Simpson); this pins the fractional times *)
Section Quadrature.
  Variables a b c d dtdx dtdy : Q.
  Definition vt3 (f x y : Q) : Q * Q := (a + b * f + c * f * f + d * f * f * f, 0).
  Definition vt1 (f x y : Q) : Q * Q := (a + b * f, 0).
  Definition vt0 (f x y : Q) : Q * Q := (a, 0).
  Lemma ef_quadrature x y : fst (rk_generic vt0 dtdx dtdy tab_EF x y) == x + a * dtdx.
  Proof. unfold rk_generic. cbn. ring. Qed.
  Lemma rk2_quadrature x y : fst (rk_generic vt1 dtdx dtdy tab_RK2 x y) == x + (a + b / 2) * dtdx.
  Proof. unfold rk_generic. cbn. field. Qed.
  Lemma rk4_quadrature x y :
    fst (rk_generic vt3 dtdx dtdy tab_RK4 x y) == x + (a + b / 2 + c / 3 + d / 4) * dtdx.
  Proof. unfold rk_generic. cbn. field. Qed.
End Quadrature.

(** * ladim.analytical helpers on linear fields (dt in seconds, velocity in grid units per second) *)
Section AnalyticalLinear.
  Variables lam mu dt : Q.
  Definition slin (x y : Q) : Q * Q := (lam * x + mu, 0).
  Let z := lam * dt.
  Lemma gv1_linear x y : fst (get_velocity1 slin x y) == lam * x + mu.
  Proof. cbn. reflexivity. Qed.
  Lemma gv2_linear s x y : ~ s == 0 ->
    fst (get_velocity2 slin dt s x y) == (lam * x + mu) * (1 + z / 2).
  Proof. intro H. unfold get_velocity2, z. cbn. field. exact H. Qed.
  Lemma gv4_linear x y :
    fst (get_velocity4 slin dt x y) == (lam * x + mu) * (1 + z / 2 + z * z / 6 + z * z * z / 24).
  Proof. unfold get_velocity4, z. cbn. field. Qed.
End AnalyticalLinear.
