(** Closed restart theorem (C08) about whole set-ups: the restarted simulation — new clock from the restart
    time, forcing module and releaser constructed afresh from the same files and table — writes the records
    the uninterrupted simulation writes after the restart step, with the steps counted from the restart.
    Covers the three advection schemes: the flow of the restarted run at step n, stage fraction f, is the flow of
    the uninterrupted run at step n + r, fraction f ([uf_w]: the interpolation points move with the steps). *)
From Coq Require Import ZArith QArith List Bool Lia.
From Ladim Require Import Base.Num Model.Time Model.ForcingTime Model.Release Model.Sim Model.Setup Model.SetupWarm.
From Ladim Require Import Proofs.SimProofs Proofs.SimRelProofs Proofs.SimShiftProofs Proofs.SimRestartProofs
  Proofs.ForcingTimeProofs Proofs.ReleaseProofs Proofs.SymmetryProofs Proofs.MirrorForcingProofs
  Proofs.SetupProofs Proofs.SetupSymProofs.
Import ListNotations.
Open Scope Z_scope.

(** * the clock of the restarted run *)
Section Clock.
  Variable t : tk.
  Variable r : Z.
  Hypothesis Hdt : 0 < dt t.
  Hypothesis Hdir : dir_ok t = true.
  Hypothesis Hr : 0 <= r <= nsteps t.

  Lemma time2step_warm x : time2step (warm_tk t r) x = time2step t x - r.
  Proof.
    unfold time2step, warm_tk, step2time. cbn [start dt rev]. destruct (rev t).
    - replace (start t - r * dt t - x) with (start t - x + (- r) * dt t) by lia.
      rewrite Z.div_add by lia. lia.
    - replace (x - (start t + r * dt t)) with (x - start t + (- r) * dt t) by lia.
      rewrite Z.div_add by lia. lia.
  Qed.

  Lemma span_ge : r * dt t <= Z.abs (stop t - start t).
  Proof.
    unfold nsteps in Hr. destruct Hr as [_ H].
    pose proof (Z.mul_div_le (Z.abs (stop t - start t)) (dt t) Hdt). nia.
  Qed.

  Lemma nsteps_warm : nsteps (warm_tk t r) = nsteps t - r.
  Proof.
    pose proof span_ge as G. unfold nsteps, warm_tk, step2time. cbn [start stop dt rev].
    unfold dir_ok in Hdir. destruct (rev t).
    - apply Z.leb_le in Hdir.
      replace (Z.abs (stop t - (start t - r * dt t))) with (Z.abs (stop t - start t) + (- r) * dt t) by lia.
      rewrite Z.div_add by lia. lia.
    - apply Z.leb_le in Hdir.
      replace (Z.abs (stop t - (start t + r * dt t))) with (Z.abs (stop t - start t) + (- r) * dt t) by lia.
      rewrite Z.div_add by lia. lia.
  Qed.

  Lemma grid_warm x : ((x - start (warm_tk t r)) mod dt (warm_tk t r) =? 0) = ((x - start t) mod dt t =? 0).
  Proof.
    unfold warm_tk, step2time. cbn [start dt rev]. destruct (rev t).
    - replace (x - (start t - r * dt t)) with (x - start t + r * dt t) by lia. rewrite Z.mod_add by lia. reflexivity.
    - replace (x - (start t + r * dt t)) with (x - start t + (- r) * dt t) by lia. rewrite Z.mod_add by lia. reflexivity.
  Qed.

  Lemma sim_le_warm a b : sim_le (warm_tk t r) a b = sim_le t a b.
  Proof. reflexivity. Qed.

  (** a time whose step in the new numbering is at least 1 lies strictly after the new start and inside
      the old window iff inside the new one *)
  Lemma window_warm x n : 1 <= n -> time2step t x = n + r ->
    in_window_warm (warm_tk t r) x = in_window t x.
  Proof.
    intros Hn E. unfold in_window_warm, in_window, warm_tk, step2time, time2step in *. cbn [start stop rev].
    destruct (rev t).
    - pose proof (Z.mul_div_le (start t - x) (dt t) Hdt) as M. rewrite E in M.
      f_equal.
      destruct (Z.ltb_spec x (start t - r * dt t)), (Z.leb_spec x (start t)); try reflexivity; nia.
    - pose proof (Z.mul_div_le (x - start t) (dt t) Hdt) as M. rewrite E in M.
      rewrite (andb_comm (start t + r * dt t <? x)), (andb_comm (start t <=? x)). f_equal.
      destruct (Z.ltb_spec (start t + r * dt t) x), (Z.leb_spec (start t) x); try reflexivity; nia.
  Qed.
End Clock.

(** * the forcing tables of the restarted run: the same frames, every step number lowered by r *)
Definition shf (c : Z) (fr : frame) : frame := {| fstep := fstep fr + c; ffile := ffile fr; fidx := fidx fr |}.

Lemma lookup_shf c raw s : lookup (map (shf c) raw) (s + c) = option_map (shf c) (lookup raw s).
Proof.
  induction raw as [|fr raw IH]; cbn; [reflexivity|]. rewrite IH.
  destruct (lookup raw s); cbn; [reflexivity|].
  destruct (Z.eqb_spec (fstep fr + c) (s + c)), (Z.eqb_spec (fstep fr) s); try reflexivity; lia.
Qed.
Lemma insert_shift c x l : insert (x + c) (map (fun s => s + c) l) = map (fun s => s + c) (insert x l).
Proof.
  induction l as [|y l IH]; cbn; [reflexivity|].
  destruct (Z.leb_spec (x + c) (y + c)), (Z.leb_spec x y); try lia; cbn; [reflexivity|]. rewrite IH. reflexivity.
Qed.
Lemma isort_shift c l : isort (map (fun s => s + c) l) = map (fun s => s + c) (isort l).
Proof. induction l as [|x l IH]; cbn; [reflexivity|]. rewrite IH. apply insert_shift. Qed.
Lemma steps_shf c raw : steps (mk_tables (map (shf c) raw)) = map (fun s => s + c) (steps (mk_tables raw)).
Proof. unfold mk_tables; cbn [steps]. rewrite map_map. cbn [shf fstep]. rewrite <- (map_map fstep (fun s => s + c)). apply isort_shift. Qed.
Lemma frame_val_shf c raw D s : frame_val (map (shf c) raw) D (s + c) = frame_val raw D s.
Proof. unfold frame_val. rewrite lookup_shf. destruct (lookup raw s); reflexivity. Qed.
Lemma upts_shf c raw D : upts (map (shf c) raw) D = map (fun p => (fst p + c, snd p)) (upts raw D).
Proof.
  unfold upts. rewrite steps_shf, !map_map. apply map_ext. intro s. cbn. unfold uval. rewrite frame_val_shf. reflexivity.
Qed.
Lemma spts_shf c raw D : spts (map (shf c) raw) D = map (fun p => (fst p + c, snd p)) (spts raw D).
Proof.
  unfold spts. rewrite steps_shf, !map_map. apply map_ext. intro s. cbn. unfold sval. rewrite frame_val_shf. reflexivity.
Qed.
Lemma nodup_shf c raw : nodupb (map fstep (map (shf c) raw)) = nodupb (map fstep raw).
Proof.
  rewrite map_map. cbn [shf fstep]. rewrite <- (map_map fstep (fun s => s + c)).
  apply (nodupb_tr (fun s => s + c)). intros a b H. lia.
Qed.
Lemma readable_shf c raw D : readable (map (shf c) raw) D = readable raw D.
Proof. unfold readable. rewrite forallb_map'. reflexivity. Qed.
Lemma covers_shf r raw n : 0 <= r -> covers raw (n + r) = true -> covers (map (shf (- r)) raw) n = true.
Proof.
  intros Hr C. unfold covers in *. apply andb_true_iff in C as [C1 C2]. apply andb_true_iff.
  rewrite !map_map. cbn [shf fstep]. split; apply existsb_exists.
  - apply existsb_exists in C1 as (x & Hx & Hle). apply in_map_iff in Hx as (fr & <- & Hfr).
    exists (fstep fr + - r). split; [apply in_map_iff; exists fr; split; [reflexivity|exact Hfr]|].
    apply Z.leb_le in Hle. apply Z.leb_le. lia.
  - apply existsb_exists in C2 as (x & Hx & Hlt). apply in_map_iff in Hx as (fr & <- & Hfr).
    exists (fstep fr + - r). split; [apply in_map_iff; exists fr; split; [reflexivity|exact Hfr]|].
    apply Z.ltb_lt in Hlt. apply Z.ltb_lt. lia.
Qed.

Lemma scan_file_warm t r k recs : 0 < dt t -> forall i,
  scan_file (warm_tk t r) k i recs = map (shf (- r)) (scan_file t k i recs).
Proof.
  intro Hdt. induction recs as [|[[x uv] sc] rs IH]; intro i; cbn [scan_file map]; [reflexivity|].
  rewrite IH. f_equal. unfold shf; cbn. f_equal. rewrite time2step_warm by exact Hdt. lia.
Qed.
Lemma scan_files_warm t r files : 0 < dt t -> forall k,
  scan_files (warm_tk t r) k files = map (shf (- r)) (scan_files t k files).
Proof.
  intro Hdt. induction files as [|f fs IH]; intro k; cbn [scan_files map]; [reflexivity|].
  rewrite map_app, IH, scan_file_warm by exact Hdt. reflexivity.
Qed.
Lemma scan_warm t r files : 0 < dt t -> scan (warm_tk t r) files = map (shf (- r)) (scan t files).
Proof. intro H. apply scan_files_warm. exact H. Qed.

(** * interpolation and latest-frame specifications under a shift of the step axis *)
Lemma lerp_shift' a fa b fb x d : (lerp (a + d) fa (b + d) fb (x + d) == lerp a fa b fb x)%Q.
Proof.
  unfold lerp. destruct (Qeq_dec (b - a) 0) as [E|E].
  - assert (b + d - (a + d) == 0)%Q as E' by (rewrite <- E; ring).
    unfold Qdiv. assert (/ (b - a) == 0)%Q as Z0 by (rewrite E; reflexivity).
    assert (/ (b + d - (a + d)) == 0)%Q as Z1 by (rewrite E'; reflexivity). rewrite Z0, Z1. ring.
  - apply lerp_shift. exact E.
Qed.
Lemma lerp_spec_shift pts c : forall x,
  opt_rel (fun v w => (w == v)%Q) (lerp_spec pts x)
          (lerp_spec (map (fun p => (fst p + c, snd p)) pts) (x + inject_Z c)).
Proof.
  induction pts as [|[a fa] rest IH]; intro x; cbn [map lerp_spec fst snd]; [exact I|].
  assert (forall y z, Qle_bool (inject_Z (y + c)) (z + inject_Z c) = Qle_bool (inject_Z y) z) as L1.
  { intros y z. rewrite inject_Z_plus.
    destruct (Qle_bool (inject_Z y) z) eqn:E.
    - apply Qle_bool_iff. apply Qle_bool_iff in E. apply Qplus_le_l. exact E.
    - destruct (Qle_bool (inject_Z y + inject_Z c) (z + inject_Z c)) eqn:E'; [|reflexivity].
      apply Qle_bool_iff in E'. apply Qplus_le_l in E'. apply Qle_bool_iff in E'. congruence. }
  assert (forall y z, Qle_bool (z + inject_Z c) (inject_Z (y + c)) = Qle_bool z (inject_Z y)) as L2.
  { intros y z. rewrite inject_Z_plus.
    destruct (Qle_bool z (inject_Z y)) eqn:E.
    - apply Qle_bool_iff. apply Qle_bool_iff in E. apply Qplus_le_l. exact E.
    - destruct (Qle_bool (z + inject_Z c) (inject_Z y + inject_Z c)) eqn:E'; [|reflexivity].
      apply Qle_bool_iff in E'. apply Qplus_le_l in E'. apply Qle_bool_iff in E'. congruence. }
  destruct rest as [|[b fb] rest'].
  - cbn [map]. 
    assert (Qeq_bool (x + inject_Z c) (inject_Z (a + c)) = Qeq_bool x (inject_Z a)) as E.
    { rewrite inject_Z_plus. destruct (Qeq_bool x (inject_Z a)) eqn:E1.
      - apply Qeq_bool_iff. apply Qeq_bool_iff in E1. rewrite E1. reflexivity.
      - destruct (Qeq_bool (x + inject_Z c) (inject_Z a + inject_Z c)) eqn:E2; [|reflexivity].
        apply Qeq_bool_iff in E2. apply Qplus_inj_r in E2. apply Qeq_bool_iff in E2. congruence. }
    rewrite E. destruct (Qeq_bool x (inject_Z a)); cbn; [reflexivity|exact I].
  - cbn [map fst snd]. rewrite L1, L2.
    destruct (Qle_bool (inject_Z a) x && Qle_bool x (inject_Z b)).
    + cbn. rewrite !inject_Z_plus. apply lerp_shift'.
    + apply (IH x).
Qed.
(** [lerp_spec] depends on the point only up to == *)
Lemma lerp_spec_ext pts : forall x y, (x == y)%Q ->
  opt_rel (fun v w => (w == v)%Q) (lerp_spec pts x) (lerp_spec pts y).
Proof.
  induction pts as [|[a fa] rest IH]; intros x y E; cbn [lerp_spec]; [exact I|].
  destruct rest as [|[b fb] rest'].
  - rewrite (Qeqb_comp _ _ E _ _ (Qeq_refl (inject_Z a))).
    destruct (Qeq_bool y (inject_Z a)); cbn; [reflexivity|exact I].
  - rewrite (Qleb_comp _ _ (Qeq_refl (inject_Z a)) _ _ E), (Qleb_comp _ _ E _ _ (Qeq_refl (inject_Z b))).
    destruct (Qle_bool (inject_Z a) y && Qle_bool y (inject_Z b)); [|apply IH; exact E].
    cbn. unfold lerp. rewrite E. reflexivity.
Qed.
Lemma latest_spec_shift pts c : forall n,
  latest_spec (map (fun p => (fst p + c, snd p)) pts) (n + c) = latest_spec pts n.
Proof.
  induction pts as [|[a sa] rest IH]; intro n; cbn [map latest_spec fst snd]; [reflexivity|].
  rewrite IH. destruct (Z.leb_spec (a + c) (n + c)), (Z.leb_spec a n); try reflexivity; lia.
Qed.

(** * the releaser of the restarted run *)
Lemma released_warm t r tab n : 0 < dt t -> 0 <= r <= nsteps t -> 1 <= n ->
  released_at_warm (warm_tk t r) tab n = released_at t tab (n + r).
Proof.
  intros Hdt Hr Hn. unfold released_at_warm, released_at, released_by. f_equal. apply filter_ext. intro row.
  rewrite time2step_warm by exact Hdt.
  destruct (Z.eqb_spec (time2step t (rt row) - r) n) as [E|E], (Z.eqb_spec (time2step t (rt row)) (n + r)) as [E'|E']; try lia.
  rewrite (window_warm t r Hdt Hr (rt row) n Hn E'). reflexivity.
Qed.

Lemma in_window_warm_sub t r x : 0 < dt t -> 0 <= r -> in_window_warm (warm_tk t r) x = true -> in_window t x = true.
Proof.
  intros Hdt Hr. unfold in_window_warm, in_window, warm_tk, step2time. cbn [start stop rev].
  destruct (rev t); intro H; apply andb_true_iff in H as [A B]; apply andb_true_iff; split.
  - exact A.
  - apply Z.ltb_lt in B. apply Z.leb_le. nia.
  - apply Z.ltb_lt in A. apply Z.leb_le. nia.
  - exact B.
Qed.
Lemma sim_sorted_warm t r l : sim_sorted (warm_tk t r) l = sim_sorted t l.
Proof. induction l as [|x l IH]; [reflexivity|]. cbn [sim_sorted]. rewrite IH. reflexivity. Qed.
Lemma table_ok_warm_tk t r l : 0 < dt t -> table_ok (warm_tk t r) l = table_ok t l.
Proof.
  intro Hdt. unfold table_ok. rewrite sim_sorted_warm. f_equal. apply forallb_ext'. intro row. unfold Release.on_grid.
  apply grid_warm. exact Hdt.
Qed.
Lemma table_ok_warm t r tab : 0 < dt t -> 0 <= r ->
  table_ok t (filter_time (in_window t) tab) = true ->
  table_ok (warm_tk t r) (filter_time (in_window_warm (warm_tk t r)) tab) = true.
Proof.
  intros Hdt Hr H. rewrite table_ok_warm_tk by exact Hdt.
  assert (filter_time (in_window_warm (warm_tk t r)) tab =
          filter_time (in_window_warm (warm_tk t r)) (filter_time (in_window t) tab)) as E.
  { rewrite filter_time_filter_time. apply filter_time_ext. intro x.
    destruct (in_window_warm (warm_tk t r) x) eqn:W; [|rewrite andb_false_r; reflexivity].
    rewrite (in_window_warm_sub t r x Hdt Hr W). reflexivity. }
  rewrite E. apply table_ok_filter. exact H.
Qed.
(** a warm start (either release mode) is refused exactly when no row lies before the stop time; a cold
    start that is not refused has rows before the stop time *)
Lemma refusal_warm_any t c tab : rel_init t c true tab = RelExit <-> filter_time (before_stop t) tab = [].
Proof.
  unfold rel_init. destruct (filter_time (before_stop t) tab) as [|r0 d1] eqn:E1; [tauto|].
  destruct (filter_time (after_start t) _); split; intro; discriminate.
Qed.
Lemma started_before_stop t c tab : rel_init t c false tab <> RelExit -> filter_time (before_stop t) tab <> [].
Proof. intros H E. apply H. unfold rel_init. rewrite E. reflexivity. Qed.
Lemma warm_started t r c tab : filter_time (before_stop t) tab <> [] ->
  exists D g st, rel_init (warm_tk t r) c true tab = RelOk D g st.
Proof.
  intro H. destruct (rel_init (warm_tk t r) c true tab) as [|D g st] eqn:E; [|exists D, g, st; reflexivity].
  exfalso. apply refusal_warm_any in E. apply H. exact E.
Qed.

(** continuous release under the restarted clock *)
Lemma step2time_warm t r n : step2time (warm_tk t r) n = step2time t (n + r).
Proof. unfold warm_tk, step2time. cbn [start dt rev]. destruct (rev t); lia. Qed.
Lemma cont_ok_warm t r f tab : 0 < dt t -> cont_ok (warm_tk t r) f tab = cont_ok t f tab.
Proof.
  intro Hdt. unfold cont_ok. change (before_stop (warm_tk t r)) with (before_stop t).
  rewrite sim_sorted_warm. change (dt (warm_tk t r)) with (dt t). f_equal.
  destruct (filter_time (before_stop t) tab) as [|r0 W]; [reflexivity|]. unfold Release.on_grid.
  apply grid_warm. exact Hdt.
Qed.
(** at step n >= 1 of the restarted clock the warm releaser is to append what the cold releaser of the
    original clock is to append at step n + r: the time of the step is the same, ticks and latest file times
    do not depend on the start, and the time lies strictly after the new start and at or after the old one *)
Lemma cont_released_warm t r f tab n : 0 < dt t -> 0 <= r -> 1 <= n ->
  cont_released_at (warm_tk t r) f true tab n = cont_released_at t f false tab (n + r).
Proof.
  intros Hdt Hr Hn. unfold cont_released_at. change (before_stop (warm_tk t r)) with (before_stop t).
  destruct (filter_time (before_stop t) tab) as [|r0 W]; [reflexivity|].
  rewrite step2time_warm. set (x := step2time t (n + r)).
  change (is_tick (warm_tk t r) f (rt r0) x) with (is_tick t f (rt r0) x).
  change (latest (warm_tk t r) (r0 :: W) x) with (latest t (r0 :: W) x).
  assert (the_start (warm_tk t r) true x = true) as ->.
  { unfold the_start, after_start, warm_tk, x, step2time. cbn [start rev]. destruct (rev t).
    - apply Z.ltb_lt. nia.
    - apply Z.ltb_lt. nia. }
  assert (the_start t false x = true) as ->.
  { unfold the_start, from_start, x, step2time. destruct (rev t).
    - apply Z.leb_le. nia.
    - apply Z.leb_le. nia. }
  reflexivity.
Qed.

Lemma mw_rows_spec w n D g st : 0 < dt (s_tk w) ->
  match s_cont w with
  | None => table_ok (s_tk w) (filter_time (in_window_warm (s_tk w)) (s_tab w))
  | Some f => cont_ok (s_tk w) f (s_tab w)
  end = true ->
  rel_init (s_tk w) (s_cont w) true (s_tab w) = RelOk D g st -> 0 <= n ->
  mw_rows w n = spw_rows w n.
Proof.
  intros Hdt Ht E Hn. unfold mw_rows, spw_rows. rewrite E. destruct (s_cont w) as [f|].
  - rewrite (continuous_schedule (s_tk w) f true (s_tab w) D g st Hdt Ht E (S (Z.to_nat n))).
    rewrite last_map_seq. rewrite Z2Nat.id by exact Hn. reflexivity.
  - rewrite (release_schedule (s_tk w) true (s_tab w) D g st Hdt Ht E (S (Z.to_nat n))).
    rewrite last_map_seq. rewrite Z2Nat.id by exact Hn. reflexivity.
Qed.

(** forcing machines against the specification, from the three forcing facts alone *)
Lemma m_temp_spec' s n : nodupb (map fstep (s_raw s)) = true -> readable (s_raw s) (s_disk s) = true ->
  covers (s_raw s) n = true -> 0 <= n -> (m_temp s n == sp_temp s n)%Q.
Proof.
  intros A B C Hn. unfold m_temp, sp_temp, m_fstate.
  destruct (scalar_latest (s_raw s) (s_disk s) n A B C Hn) as (st & v & E1 & E2 & H).
  rewrite E1, E2. exact H.
Qed.

(** * Assembly *)
Lemma inject_plus_leib a b : (inject_Z a + inject_Z b)%Q = inject_Z (a + b).
Proof. unfold Qplus, inject_Z. cbn [Qnum Qden]. f_equal. lia. Qed.
Lemma rrel_refl (x : rec pv) : rrel pv pv pv_eq x x.
Proof.
  split; [reflexivity|]. induction (rrows x) as [|a l IH]; constructor; [|exact IH].
  split; [reflexivity|apply pv_eq_refl].
Qed.

Section Restart.
  Variable s : setup.
  Variable r : Z.
  Hypothesis Hok : setup_ok s = true.
  Hypothesis Hdir : dir_ok (s_tk s) = true.
  Hypothesis Hr : 0 <= r < s_nsteps s.
  Hypothesis Hper : 0 < s_period s.
  Hypothesis Hdue : s_due s r = true.

  Let w := warm_setup s r.
  Let t := s_tk s.
  Let F := setup_ok_facts s Hok.
  Let Hdt : 0 < dt t := of_dt s F.
  Let Hr' : 0 <= r <= nsteps t := conj (proj1 Hr) (Z.lt_le_incl _ _ (proj2 Hr)).

  Lemma nsteps_w : s_nsteps w = s_nsteps s - r.
  Proof. unfold s_nsteps, w. cbn [warm_setup s_tk]. apply nsteps_warm; assumption. Qed.

  Lemma raw_w : s_raw w = map (shf (- r)) (s_raw s).
  Proof. unfold s_raw, w. cbn [warm_setup s_tk s_files]. apply scan_warm. exact Hdt. Qed.

  Lemma w_nodup : nodupb (map fstep (s_raw w)) = true.
  Proof. rewrite raw_w, nodup_shf. exact (of_nodup s F). Qed.
  Lemma w_readable : readable (s_raw w) (s_disk w) = true.
  Proof. rewrite raw_w. unfold s_disk, w. cbn [warm_setup s_files]. rewrite readable_shf. exact (of_readable s F). Qed.
  Lemma w_covers n : n < s_nsteps s - r -> covers (s_raw w) n = true.
  Proof. intro Hn. rewrite raw_w. apply covers_shf; [lia|]. apply (of_covers s F). lia. Qed.

  (** the forcing in force at step n of the restarted run is the forcing at step n + r of the original *)
  Lemma uf_w n f : 0 <= n < s_nsteps s - r -> frac_ok f -> (m_uf w n f == m_uf s (n + r) f)%Q.
  Proof.
    intros Hn Hf.
    rewrite (m_uf_spec' w n f w_nodup w_readable (w_covers n (proj2 Hn)) (proj1 Hn) Hf).
    rewrite (m_uf_spec s (n + r) f F) by (lia || exact Hf).
    unfold sp_uf. rewrite raw_w. unfold s_disk, w. cbn [warm_setup s_files s_tk warm_tk rev].
    rewrite upts_shf.
    set (pts := upts (s_raw s) (disk_of (s_files s))).
    set (pts' := map (fun p => (fst p + - r, snd p)) pts).
    pose proof (lerp_spec_shift pts (- r) (inject_Z (n + r) + f)%Q) as H. fold pts' in H.
    assert (inject_Z (n + r) + f + inject_Z (- r) == inject_Z n + f)%Q as E2
      by (rewrite inject_Z_plus, inject_Z_opp; ring).
    pose proof (lerp_spec_ext pts' _ _ E2) as H2.
    destruct (lerp_spec pts (inject_Z (n + r) + f)) as [v|];
      destruct (lerp_spec pts' (inject_Z (n + r) + f + inject_Z (- r))) as [v'|]; cbn in H; try contradiction;
      destruct (lerp_spec pts' (inject_Z n + f)) as [v''|]; cbn in H2; try contradiction; [|reflexivity].
    destruct (rev (s_tk s)); rewrite H2, H; reflexivity.
  Qed.
  Lemma u_w n : 0 <= n < s_nsteps s - r -> uf_eq (m_uf w n) (m_uf s (n + r)).
  Proof. intro Hn. unfold uf_eq. repeat split; apply uf_w; auto using frac_ok_0, frac_ok_half, frac_ok_1. Qed.
  Lemma temp_w n : 0 <= n < s_nsteps s - r -> (m_temp w n == m_temp s (n + r))%Q.
  Proof.
    intro Hn.
    rewrite (m_temp_spec' w n w_nodup w_readable (w_covers n (proj2 Hn)) (proj1 Hn)).
    rewrite (m_temp_spec s (n + r) F) by lia.
    unfold sp_temp. rewrite raw_w. unfold s_disk, w. cbn [warm_setup s_files].
    rewrite spts_shf.
    replace n with (n + r + - r) at 1 by lia. rewrite latest_spec_shift. reflexivity.
  Qed.
  (** the releaser of the restarted run appends at step n >= 1 what the original appends at step n + r *)
  Lemma release_w n : 1 <= n -> mw_release w n = m_release s (n + r).
  Proof.
    intro Hn. unfold mw_release, m_release. f_equal.
    assert (filter_time (before_stop t) (s_tab s) <> []) as NE.
    { apply (started_before_stop t (s_cont s)). intro E. pose proof (of_started s F) as St. unfold started in St.
      fold t in St. rewrite E in St. discriminate. }
    destruct (warm_started t r (s_cont s) (s_tab s) NE) as (D & g & st & EI).
    pose proof (of_tab s F) as Tb. unfold tab_ok in Tb. fold t in Tb.
    rewrite (mw_rows_spec w n D g st); try assumption; try lia.
    - rewrite (m_rows_spec s (n + r) F) by lia.
      unfold spw_rows, sp_rows, w. cbn [warm_setup s_tk s_tab s_cont]. fold t.
      destruct (s_cont s) as [f|].
      + apply cont_released_warm; [exact Hdt|lia|exact Hn].
      + apply released_warm; assumption.
    - unfold w. cbn [warm_setup s_tk s_tab s_cont]. fold t. destruct (s_cont s) as [f|].
      + rewrite cont_ok_warm by exact Hdt. exact Tb.
      + apply table_ok_warm; [exact Hdt|lia|exact Tb].
  Qed.
  Lemma due_w n : s_due w n = s_due s (n + r).
  Proof.
    unfold s_due, w. cbn [warm_setup s_period]. unfold s_due in Hdue. apply Z.eqb_eq in Hdue.
    rewrite Z.add_mod by lia. rewrite Hdue, Z.add_0_r, Z.mod_mod by lia. reflexivity.
  Qed.

  (** ** T-restart.  [before] is the uninterrupted run just before step r, [rec_r] the record it writes at
      step r (the restart file's last record), [np] the number of particles released so far.  The restarted
      simulation — clock from the restart time, forcing module and releaser constructed afresh, state
      restored from [rec_r] relabelled as its step 0 — does not fail, and after relabelling its records by
      +r it holds the same particles and wrote the same records as the rest of the uninterrupted run,
      which is what the uninterrupted run wrote after [rec_r]. *)
  Theorem restart_transparent :
    let step := sim_step pv Z (m_release s) (m_force s) s_cache (m_track s) (ibm s) (s_due s) in
    let before := fold_left step (zrange 0 r) (sim_init pv Z) in
    let rec_r := snapshot pv r (after_release pv Z (m_release s) (m_force s) before false r) in
    let np := npid before + Z.of_nat (length (m_release s r)) in
    let rest := warm_run pv Z (m_release s) (m_force s) s_cache (m_track s) (ibm s) (s_due s) rec_r np (s_nsteps s) in
    let restarted := m_warm_run w (relabel_rec pv (- r) rec_r) np in
    recs (m_run s) = recs before ++ [rec_r] ++ recs rest /\
    srel pv pv Z pv_eq (relabel pv Z r restarted) rest.
  Proof.
    intros step before rec_r np rest restarted. split.
    - assert (forall n v, m_force s n (m_force s n v) = m_force s n v) as Idem by reflexivity.
      destruct (warm_equals_cold_suffix pv Z (m_release s) (m_force s) s_cache (m_track s) (ibm s) (s_due s) Idem
                  (s_nsteps s) r Hr Hdue) as [E _]. exact E.
    - unfold restarted, m_warm_run.
      (* the restarted run in the numbering of the original: environment X n = environment of w at n - r *)
      set (relX := fun n => mw_release w (n - r)).
      set (ffX := fun n => m_force w (n - r)).
      set (tfX := fun n => m_track w (n - r)).
      set (bfX := fun n => ibm w (n - r)).
      set (duX := fun n => s_due w (n - r)).
      rewrite (warm_run_relabel pv Z relX (mw_release w) ffX (m_force w) s_cache s_cache tfX (m_track w) bfX (ibm w)
                 duX (s_due w) r (fun _ => True) (fun _ => True)).
      + assert (relabel_rec pv r (relabel_rec pv (- r) rec_r) = rec_r) as ER.
        { unfold relabel_rec, rec_r, snapshot. cbn [rstep rrows]. f_equal. lia. }
        rewrite ER, nsteps_w. replace (s_nsteps s - r + r) with (s_nsteps s) by lia.
        apply warm_run_rel with (ok := fun n => r <= n < s_nsteps s) (okr := fun n => r < n < s_nsteps s).
        * intros n Hn. unfold relX. rewrite release_w by lia. replace (n - r + r) with n by lia. apply Forall2_refl_rows.
        * intros n v v' Hn R. unfold ffX, m_force. apply with_temp_eq; [exact R|].
          rewrite temp_w by lia. replace (n - r + r) with n by lia. reflexivity.
        * intros n v v' _ (_ & B & _). exact B.
        * intros n v v' c Hn R. unfold tfX, m_track.
          rewrite (move_phys s w) by (unfold phys_eq, w; cbn; repeat split; reflexivity).
          apply move_eq; [|exact R]. replace n with (n - r + r) at 2 by lia. apply u_w. lia.
        * intros n v v' _ R. unfold bfX. rewrite (ibm_phys s w) by (unfold phys_eq, w; cbn; repeat split; reflexivity).
          exact (ibm_eq s n v v' R).
        * intros n _. unfold duX. rewrite due_w. f_equal. lia.
        * apply rrel_refl.
        * cbn. lia.
        * intros n Hn. cbn in Hn. split; lia.
      + intros n _. unfold relX. f_equal. lia.
      + intros n v _. unfold ffX. f_equal. lia.
      + reflexivity.
      + intros n v c _. unfold tfX. f_equal. lia.
      + intros n v _. unfold bfX. f_equal. lia.
      + intros n _. unfold duX. f_equal. lia.
      + exact I.
      + intros n _. split; exact I.
  Qed.
End Restart.
