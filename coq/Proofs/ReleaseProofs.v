(** Proofs/ReleaseProofs.v — lemmas about Model/Release.v (property C04). *)
From Coq Require Import ZArith List Bool Lia.
From Ladim Require Import Base.Num Model.Time Proofs.TimeProofs Model.Release.
Import ListNotations.
Open Scope Z_scope.

(** * A. lists *)
Lemma filter_filter {A} (p q : A -> bool) l :
  filter p (filter q l) = filter (fun x => q x && p x) l.
Proof.
  induction l as [|x l IH]; [reflexivity|]. cbn [filter].
  destruct (q x); cbn [andb]; [cbn [filter]; destruct (p x); rewrite IH; reflexivity|exact IH].
Qed.
Lemma filter_time_filter_time p q tab :
  filter_time p (filter_time q tab) = filter_time (fun x => q x && p x) tab.
Proof. unfold filter_time. apply filter_filter. Qed.
Lemma filter_nil_all {A} (p : A -> bool) l : (forall x, In x l -> p x = false) -> filter p l = [].
Proof.
  induction l as [|x l IH]; intro H; [reflexivity|]. cbn [filter].
  rewrite (H x (or_introl eq_refl)). apply IH. intros y Hy. apply H. right. exact Hy.
Qed.
Lemma filter_all {A} (p : A -> bool) l : (forall x, In x l -> p x = true) -> filter p l = l.
Proof.
  induction l as [|x l IH]; intro H; [reflexivity|]. cbn [filter].
  rewrite (H x (or_introl eq_refl)). f_equal. apply IH. intros y Hy. apply H. right. exact Hy.
Qed.
Lemma nth_opt_map_mid {A B} (g : A -> B) pre x post :
  nth_opt (map g (pre ++ x :: post)) (length pre) = Some (g x).
Proof. induction pre as [|a pre IH]; [reflexivity|exact IH]. Qed.

Lemma In_uniq x l : In x (uniq l) <-> In x l.
Proof.
  induction l as [|a l IH]; [tauto|]. cbn [uniq In]. rewrite filter_In, IH.
  destruct (Z.eq_dec a x) as [E|E]; [tauto|].
  assert (negb (x =? a) = true) by (apply negb_true_iff, Z.eqb_neq; congruence). tauto.
Qed.

(** all-pairs relatedness, left element earlier in the list *)
Fixpoint allpairs (R : Z -> Z -> Prop) (l : list Z) : Prop :=
  match l with [] => True | x :: r => (forall y, In y r -> R x y) /\ allpairs R r end.
Definition sinc := allpairs Z.lt.

Lemma allpairs_filter R p l : allpairs R l -> allpairs R (filter p l).
Proof.
  induction l as [|x l IH]; [trivial|]. intros [H1 H2]. cbn [filter].
  destruct (p x); [|exact (IH H2)]. split; [|exact (IH H2)].
  intros y Hy. apply filter_In in Hy. apply H1. tauto.
Qed.
Lemma allpairs_app R a b :
  allpairs R (a ++ b) <-> allpairs R a /\ allpairs R b /\ (forall x y, In x a -> In y b -> R x y).
Proof.
  induction a as [|x a IH]; cbn [app allpairs].
  - split; [intro H; repeat split; [exact H|intros x y []]|tauto].
  - rewrite IH. split.
    + intros [H1 (H2 & H3 & H4)]. repeat split; try assumption.
      * intros y Hy. apply H1, in_or_app. tauto.
      * intros u v [<-|Hu] Hv; [apply H1, in_or_app; tauto|exact (H4 u v Hu Hv)].
    + intros [[H1 H2] (H3 & H4)]. repeat split; try assumption.
      * intros y Hy. apply in_app_or in Hy. destruct Hy as [Hy|Hy]; [exact (H1 y Hy)|].
        apply H4; [left; reflexivity|exact Hy].
      * intros u v Hu Hv. apply H4; [right; exact Hu|exact Hv].
Qed.
Lemma allpairs_map (R R' : Z -> Z -> Prop) (f : Z -> Z) l :
  (forall x y, In x l -> In y l -> R x y -> R' (f x) (f y)) -> allpairs R l -> allpairs R' (map f l).
Proof.
  induction l as [|x l IH]; [trivial|]. intros H [H1 H2]. cbn [map allpairs]. split.
  - intros y Hy. apply in_map_iff in Hy. destruct Hy as (u & <- & Hu).
    apply H; [left; reflexivity|right; exact Hu|exact (H1 u Hu)].
  - apply IH; [|exact H2]. intros u v Hu Hv. apply H; right; assumption.
Qed.
Lemma allpairs_weaken (R R' : Z -> Z -> Prop) l :
  (forall x y, In x l -> In y l -> R x y -> R' x y) -> allpairs R l -> allpairs R' l.
Proof.
  intros H A. rewrite <- (map_id l) at 1. apply (allpairs_map R R' (fun x => x)); [|exact A].
  exact H.
Qed.
Lemma sinc_map_inj (f : Z -> Z) l a b :
  sinc (map f l) -> In a l -> In b l -> f a = f b -> a = b.
Proof.
  induction l as [|x l IH]; [intros _ []|]. cbn [map]. intros [H1 H2] Ha Hb E.
  destruct Ha as [<-|Ha], Hb as [<-|Hb]; [reflexivity| | |exact (IH H2 Ha Hb E)].
  - pose proof (H1 (f b) (in_map f _ _ Hb)). lia.
  - pose proof (H1 (f a) (in_map f _ _ Ha)). lia.
Qed.

(** * B. the cursor machine on an arbitrary table whose release steps are strictly increasing *)
Section Machine.
  Variable f : Z -> Z.
  Variable D : list row.
  Variable times : list Z.
  Hypothesis Hin : forall r, In r D -> In (rt r) times.
  Hypothesis Hs : sinc (map f times).
  Hypothesis H0 : forall x, In x times -> 0 <= f x.
  Let groups := map (fun x => rows_at x D) times.
  Let steps := map f times.
  Definition out_at (n : Z) : list row := expand (filter (fun r => f (rt r) =? n) D).

  Lemma rows_at_step x : In x times -> rows_at x D = filter (fun r => f (rt r) =? f x) D.
  Proof.
    intro Hx. unfold rows_at, filter_time. apply filter_ext_in. intros r Hr.
    destruct (Z.eqb_spec x (rt r)) as [E|E].
    - subst x. symmetry. apply Z.eqb_refl.
    - symmetry. apply Z.eqb_neq. intro E'. apply E. symmetry.
      exact (sinc_map_inj f times _ _ Hs (Hin r Hr) Hx E').
  Qed.

  Lemma machine_step pre post (N : Z) :
    times = pre ++ post ->
    (forall x, In x pre -> f x < N) -> (forall x, In x post -> N <= f x) ->
    exists pre' post', times = pre' ++ post' /\
      (forall x, In x pre' -> f x < N + 1) /\ (forall x, In x post' -> N + 1 <= f x) /\
      release_update groups steps N {| idx := length pre |} = Some ({| idx := length pre' |}, out_at N).
  Proof.
    intros E Hpre Hpost. unfold release_update.
    destruct (existsb (Z.eqb N) steps) eqn:Ex.
    - apply existsb_exists in Ex. destruct Ex as (y & Hy & Ey). apply Z.eqb_eq in Ey. subst y.
      unfold steps in Hy. apply in_map_iff in Hy. destruct Hy as (x & Fx & Hx).
      rewrite E in Hx. apply in_app_or in Hx. destruct Hx as [Hx|Hx]; [pose proof (Hpre x Hx); lia|].
      destruct post as [|x0 post']; [destruct Hx|].
      assert (f x0 = N) as F0.
      { destruct Hx as [->|Hx]; [exact Fx|]. exfalso.
        pose proof Hs as S. rewrite E, map_app in S. apply allpairs_app in S. destruct S as (_ & S & _).
        cbn [map allpairs] in S. destruct S as [S _].
        pose proof (S (f x) (in_map f _ _ Hx)). pose proof (Hpost x0 (or_introl eq_refl)). lia. }
      exists (pre ++ [x0]), post'. repeat split.
      + rewrite E, <- app_assoc. reflexivity.
      + intros u Hu. apply in_app_or in Hu. destruct Hu as [Hu|[<-|[]]]; [pose proof (Hpre u Hu)|]; lia.
      + intros u Hu.
        pose proof Hs as S. rewrite E, map_app in S. apply allpairs_app in S. destruct S as (_ & S & _).
        cbn [map allpairs] in S. destruct S as [S _]. pose proof (S (f u) (in_map f _ _ Hu)). lia.
      + unfold groups. cbn [idx]. rewrite E, nth_opt_map_mid. rewrite app_length. cbn [length].
        replace (length pre + 1)%nat with (S (length pre)) by lia. unfold out_at.
        rewrite <- F0. rewrite <- rows_at_step; [reflexivity|]. rewrite E. apply in_or_app. right. left. reflexivity.
    - exists pre, post. repeat split; [exact E| | |].
      + intros u Hu. pose proof (Hpre u Hu). lia.
      + intros u Hu. pose proof (Hpost u Hu). assert (f u <> N); [|lia]. intro Fu.
        assert (existsb (Z.eqb N) steps = true); [|congruence].
        apply existsb_exists. exists (f u). split; [|apply Z.eqb_eq; congruence].
        unfold steps. apply in_map. rewrite E. apply in_or_app. right. exact Hu.
      + unfold out_at. rewrite filter_nil_all; [reflexivity|]. intros r Hr. apply Z.eqb_neq. intro Fr.
        assert (existsb (Z.eqb N) steps = true); [|congruence].
        apply existsb_exists. exists (f (rt r)). split; [|apply Z.eqb_eq; congruence].
        unfold steps. apply in_map. exact (Hin r Hr).
  Qed.

  Lemma machine_inv (N : nat) :
    exists pre post, times = pre ++ post /\
      (forall x, In x pre -> f x < Z.of_nat N) /\ (forall x, In x post -> Z.of_nat N <= f x) /\
      run_upto groups steps N = Some ({| idx := length pre |}, map (fun k => out_at (Z.of_nat k)) (seq 0 N)).
  Proof.
    induction N as [|N IH].
    - exists [], times. repeat split; [intros x []|]. intros x Hx. pose proof (H0 x Hx). lia.
    - destruct IH as (pre & post & E & Hpre & Hpost & R).
      destruct (machine_step pre post (Z.of_nat N) E Hpre Hpost) as (pre' & post' & E' & Hpre' & Hpost' & U).
      exists pre', post'. replace (Z.of_nat (S N)) with (Z.of_nat N + 1) by lia.
      repeat split; try assumption. cbn [run_upto]. rewrite R, U.
      rewrite seq_S, map_app. reflexivity.
  Qed.

  Lemma split_count pre post (N : Z) :
    (forall x, In x pre -> f x < N) -> (forall x, In x post -> N <= f x) ->
    length (filter (fun x => f x <? N) (pre ++ post)) = length pre.
  Proof.
    intros Hpre Hpost. rewrite filter_app, app_length.
    rewrite (filter_all _ pre), (filter_nil_all _ post); [cbn [length]; lia| |].
    - intros x Hx. apply Z.ltb_ge. exact (Hpost x Hx).
    - intros x Hx. apply Z.ltb_lt. exact (Hpre x Hx).
  Qed.

  (** run of N steps: never StopIteration; the cursor counts the release times before step N;
      at step k exactly the rows of D whose step is k, in table order, each mult times *)
  Lemma machine_correct (N : nat) :
    run_upto groups steps N =
    Some ({| idx := length (filter (fun x => f x <? Z.of_nat N) times) |},
          map (fun k => out_at (Z.of_nat k)) (seq 0 N)).
  Proof.
    destruct (machine_inv N) as (pre & post & E & Hpre & Hpost & R).
    rewrite R. rewrite <- (split_count pre post _ Hpre Hpost), <- E. reflexivity.
  Qed.
End Machine.

(** * C. simulation order, time grid -> strictly increasing release steps *)
Definition key (t : tk) (x : Z) : Z := if rev t then - x else x.
Lemma key_inj t x y : key t x = key t y -> x = y.
Proof. unfold key. destruct (rev t); lia. Qed.
Lemma sim_le_key t x y : sim_le t x y = (key t x <=? key t y).
Proof.
  unfold sim_le, key. destruct (rev t); [|reflexivity].
  destruct (Z.leb_spec y x), (Z.leb_spec (- x) (- y)); try reflexivity; lia.
Qed.
Lemma before_stop_key t x : before_stop t x = (key t x <? key t (stop t)).
Proof.
  unfold before_stop, key. destruct (rev t); [|reflexivity].
  destruct (Z.ltb_spec (stop t) x), (Z.ltb_spec (- x) (- stop t)); try reflexivity; lia.
Qed.
Lemma from_start_key t x : from_start t x = (key t (start t) <=? key t x).
Proof.
  unfold from_start, key. destruct (rev t); [|reflexivity].
  destruct (Z.leb_spec x (start t)), (Z.leb_spec (- start t) (- x)); try reflexivity; lia.
Qed.
Lemma after_start_key t x : after_start t x = (key t (start t) <? key t x).
Proof.
  unfold after_start, key. destruct (rev t); [|reflexivity].
  destruct (Z.ltb_spec x (start t)), (Z.ltb_spec (- start t) (- x)); try reflexivity; lia.
Qed.
Lemma time2step_key t x : time2step t x = (key t x - key t (start t)) / dt t.
Proof. unfold time2step, key. destruct (rev t); f_equal; lia. Qed.
Lemma step2time_key t n : key t (step2time t n) = key t (start t) + n * dt t.
Proof. unfold step2time, key. destruct (rev t); lia. Qed.
Lemma on_grid_key t x : 0 < dt t -> on_grid t x = true <-> (dt t | key t x - key t (start t)).
Proof.
  intro H. unfold on_grid. rewrite Z.eqb_eq, Z.mod_divide by lia. unfold key.
  destruct (rev t); [|reflexivity].
  replace (- x - - start t) with (- (x - start t)) by lia. symmetry. apply Z.divide_opp_r.
Qed.
Lemma div_strict d a b : 0 < d -> (d | a) -> (d | b) -> a < b -> a / d < b / d.
Proof.
  intros H [ka ->] [kb ->] L. rewrite !Z.div_mul by lia. nia.
Qed.
Lemma time2step_strict t x y : 0 < dt t -> on_grid t x = true -> on_grid t y = true ->
  key t x < key t y -> time2step t x < time2step t y.
Proof.
  intros H Gx Gy L. rewrite !time2step_key. apply on_grid_key in Gx, Gy; try exact H.
  apply div_strict; try assumption. lia.
Qed.
Lemma time2step_nonneg t x : 0 < dt t -> from_start t x = true -> 0 <= time2step t x.
Proof.
  intros H F. rewrite from_start_key in F. apply Z.leb_le in F. rewrite time2step_key.
  apply Z.div_pos; lia.
Qed.

Definition key_le t x y := key t x <= key t y.
Definition key_lt t x y := key t x < key t y.
Lemma sim_sorted_allpairs t l : sim_sorted t l = true <-> allpairs (key_le t) l.
Proof.
  induction l as [|x r IH]; [cbn; tauto|]. cbn [sim_sorted allpairs]. rewrite andb_true_iff, IH.
  destruct r as [|y r']; [cbn; tauto|]. rewrite sim_le_key, Z.leb_le. split.
  - intros [L A]. split; [|exact A]. cbn [allpairs] in A. destruct A as [A1 _].
    intros z [<-|Hz]; [exact L|]. unfold key_le in *. pose proof (A1 z Hz). lia.
  - intros [L A]. split; [|exact A]. apply L. left. reflexivity.
Qed.
Lemma uniq_strict t l : allpairs (key_le t) l -> allpairs (key_lt t) (uniq l).
Proof.
  induction l as [|x r IH]; [trivial|]. intros [H1 H2]. cbn [uniq allpairs]. split.
  - intros y Hy. apply filter_In in Hy. destruct Hy as [Hy Ny]. apply (proj1 (In_uniq _ _)) in Hy.
    apply negb_true_iff, Z.eqb_neq in Ny. pose proof (H1 y Hy) as L. unfold key_le, key_lt in *.
    assert (key t x <> key t y) by (intro E; apply key_inj in E; congruence). lia.
  - apply allpairs_filter. exact (IH H2).
Qed.
Lemma filter_time_rt p tab : map rt (filter_time p tab) = filter p (map rt tab).
Proof.
  unfold filter_time. induction tab as [|r tab IH]; [reflexivity|]. cbn [filter map].
  destruct (p (rt r)); cbn [map]; rewrite IH; reflexivity.
Qed.
Lemma table_ok_spec t tab : table_ok t tab = true <->
  allpairs (key_le t) (map rt tab) /\ (forall r, In r tab -> on_grid t (rt r) = true).
Proof. unfold table_ok. rewrite andb_true_iff, sim_sorted_allpairs, forallb_forall. reflexivity. Qed.
(** a sorted on-grid table stays so when rows are filtered out by time *)
Lemma table_ok_filter t p tab : table_ok t tab = true -> table_ok t (filter_time p tab) = true.
Proof.
  rewrite !table_ok_spec. intros [A G]. split.
  - rewrite filter_time_rt. apply allpairs_filter. exact A.
  - intros r Hr. apply filter_In in Hr. apply G. tauto.
Qed.
Lemma table_steps t D : 0 < dt t -> table_ok t D = true ->
  sinc (map (time2step t) (uniq (map rt D))).
Proof.
  intros H Ok. apply table_ok_spec in Ok. destruct Ok as [A G].
  apply (allpairs_map (key_lt t) Z.lt); [|apply uniq_strict; exact A].
  intros x y Hx Hy L. apply (proj1 (In_uniq _ _)) in Hx, Hy. apply in_map_iff in Hx, Hy.
  destruct Hx as (rx & <- & Hx), Hy as (ry & <- & Hy).
  apply time2step_strict; auto.
Qed.

(** * D. discrete release *)
Lemma rel_core t D : 0 < dt t -> table_ok t D = true ->
  (forall r, In r D -> from_start t (rt r) = true) ->
  forall N, run_upto (group_by_time D) (map (time2step t) (uniq (map rt D))) N =
    Some ({| idx := length (filter (fun x => time2step t x <? Z.of_nat N) (uniq (map rt D))) |},
          map (fun k => expand (filter (fun r => time2step t (rt r) =? Z.of_nat k) D)) (seq 0 N)).
Proof.
  intros H Ok F N. unfold group_by_time.
  apply (machine_correct (time2step t) D (uniq (map rt D))).
  - intros r Hr. apply In_uniq, in_map. exact Hr.
  - apply table_steps; assumption.
  - intros x Hx. apply (proj1 (In_uniq _ _)) in Hx. apply in_map_iff in Hx. destruct Hx as (r & <- & Hr).
    apply time2step_nonneg; auto.
Qed.

Lemma window_bools t x : before_stop t x && from_start t x = in_window t x.
Proof. unfold before_stop, from_start, in_window. destruct (rev t); [reflexivity|apply andb_comm]. Qed.
Lemma window_bools_warm t x :
  before_stop t x && from_start t x && after_start t x = in_window_warm t x.
Proof.
  unfold before_stop, from_start, after_start, in_window_warm. destruct (rev t).
  - destruct (Z.ltb_spec (stop t) x), (Z.leb_spec x (start t)), (Z.ltb_spec x (start t)); try reflexivity; lia.
  - destruct (Z.ltb_spec x (stop t)), (Z.leb_spec (start t) x), (Z.ltb_spec (start t) x); try reflexivity; lia.
Qed.
Definition the_window (t : tk) (warm : bool) : Z -> bool :=
  if warm then in_window_warm t else in_window t.
Lemma window_from_start t warm x : the_window t warm x = true -> from_start t x = true.
Proof.
  destruct warm; cbn [the_window]; [rewrite <- window_bools_warm|rewrite <- window_bools];
    rewrite !andb_true_iff; tauto.
Qed.
Lemma filter_time_ext p q tab : (forall x, p x = q x) -> filter_time p tab = filter_time q tab.
Proof. intro H. unfold filter_time. apply filter_ext. intro r. apply H. Qed.

Lemma rel_init_discrete t warm tab D groups steps :
  rel_init t None warm tab = RelOk D groups steps ->
  D = filter_time (the_window t warm) tab /\ groups = group_by_time D /\
  steps = map (time2step t) (uniq (map rt D)).
Proof.
  unfold rel_init. destruct (filter_time (before_stop t) tab) as [|r0 d1] eqn:E1; [discriminate|].
  rewrite <- E1.
  assert ((if warm then filter_time (after_start t) (filter_time (from_start t) (filter_time (before_stop t) tab))
           else filter_time (from_start t) (filter_time (before_stop t) tab))
          = filter_time (the_window t warm) tab) as ->.
  { destruct warm; cbn [the_window]; rewrite !filter_time_filter_time.
    - apply filter_time_ext. intro x. rewrite andb_assoc. apply window_bools_warm.
    - apply filter_time_ext, window_bools. }
  destruct (filter_time (the_window t warm) tab) as [|r d] eqn:E4.
  - destruct warm; [|discriminate]. intro H. injection H as <- <- <-. repeat split.
  - intro H. assert (RelOk (r :: d) (group_by_time (r :: d)) (map (time2step t) (uniq (map rt (r :: d))))
                     = RelOk D groups steps) as H' by (destruct warm; exact H).
    injection H' as <- <- <-. repeat split.
Qed.
Lemma released_by_filter win t tab n :
  released_by win t tab n = expand (filter (fun r => time2step t (rt r) =? n) (filter_time win tab)).
Proof. unfold released_by, expand, filter_time. rewrite filter_filter. reflexivity. Qed.

(** T1 (cold and warm start, both directions) *)
Lemma release_schedule t warm tab D groups steps :
  0 < dt t -> table_ok t (filter_time (the_window t warm) tab) = true ->
  rel_init t None warm tab = RelOk D groups steps ->
  forall N, run_upto groups steps N =
    Some ({| idx := times_before (the_window t warm) t tab (Z.of_nat N) |},
          map (fun k => released_by (the_window t warm) t tab (Z.of_nat k)) (seq 0 N)).
Proof.
  intros H Ok I N. apply rel_init_discrete in I. destruct I as (-> & -> & ->).
  rewrite (rel_core t _ H Ok).
  - unfold times_before. f_equal. f_equal. apply map_ext. intro k. symmetry. apply released_by_filter.
  - intros r Hr. apply filter_In in Hr. apply (window_from_start t warm). tauto.
Qed.

(** start-up refusal: cold start refuses exactly when no row lies in the window; a warm start
    refuses exactly when no row lies before the stop time *)
Lemma refusal_cold t tab : rel_init t None false tab = RelExit <-> filter_time (in_window t) tab = [].
Proof.
  unfold rel_init. destruct (filter_time (before_stop t) tab) as [|r0 d1] eqn:E1.
  - split; [intros _|reflexivity]. rewrite <- (filter_time_ext _ _ tab (window_bools t)).
    rewrite <- filter_time_filter_time, E1. reflexivity.
  - rewrite <- E1, filter_time_filter_time, (filter_time_ext _ _ tab (window_bools t)).
    destruct (filter_time (in_window t) tab); split; intro; try reflexivity; discriminate.
Qed.
Lemma refusal_warm t tab : rel_init t None true tab = RelExit <-> filter_time (before_stop t) tab = [].
Proof.
  unfold rel_init. destruct (filter_time (before_stop t) tab) as [|r0 d1] eqn:E1; [tauto|].
  destruct (filter_time (after_start t) (filter_time (from_start t) (r0 :: d1))); split; intro; discriminate.
Qed.

(** T3: file order *)
Lemma released_by_app win t a b n :
  released_by win t (a ++ b) n = released_by win t a n ++ released_by win t b n.
Proof. unfold released_by. rewrite filter_app, flat_map_app. reflexivity. Qed.
Lemma released_by_one win t r n :
  released_by win t [r] n = if win (rt r) && (time2step t (rt r) =? n) then repeat r (rmult r) else [].
Proof.
  unfold released_by. cbn [filter]. destruct (win (rt r) && (time2step t (rt r) =? n));
    cbn [flat_map]; [apply app_nil_r|reflexivity].
Qed.
Lemma file_row_order win t a r1 b r2 c n :
  win (rt r1) = true -> time2step t (rt r1) = n -> win (rt r2) = true -> time2step t (rt r2) = n ->
  released_by win t (a ++ r1 :: b ++ r2 :: c) n =
  released_by win t a n ++ repeat r1 (rmult r1) ++ released_by win t b n ++ repeat r2 (rmult r2)
    ++ released_by win t c n.
Proof.
  intros W1 S1 W2 S2.
  change (a ++ r1 :: b ++ r2 :: c) with (a ++ [r1] ++ b ++ [r2] ++ c).
  rewrite !released_by_app, !released_by_one, W1, W2, S1, S2, Z.eqb_refl. reflexivity.
Qed.
(** every scheduled step lies in 0 .. nsteps (and below nsteps when dt divides the duration) *)
Lemma window_step_range t x : 0 < dt t -> in_window t x = true -> on_grid t x = true ->
  0 <= time2step t x <= nsteps t /\ ((dt t | stop t - start t) -> time2step t x < nsteps t).
Proof.
  intros H W G. rewrite <- window_bools, andb_true_iff in W. destruct W as [B F].
  pose proof (time2step_nonneg t x H F) as P. apply on_grid_key in G; [|exact H].
  rewrite before_stop_key in B. apply Z.ltb_lt in B. rewrite from_start_key in F. apply Z.leb_le in F.
  rewrite time2step_key in *. unfold nsteps.
  assert (Z.abs (stop t - start t) = key t (stop t) - key t (start t)) as ->.
  { unfold key in *. destruct (rev t); lia. }
  split; [split; [exact P|apply Z.div_le_mono; lia]|].
  intro Dv. apply div_strict; try assumption; [|lia].
  unfold key. destruct (rev t); [|exact Dv].
  replace (- stop t - - start t) with (- (stop t - start t)) by lia. apply Z.divide_opp_r. exact Dv.
Qed.

(** * E. continuous release *)
Lemma grid_key t f a b : 0 < f -> ((a - b) mod f =? 0) = true <-> (f | key t a - key t b).
Proof.
  intro H. rewrite Z.eqb_eq, Z.mod_divide by lia. unfold key. destruct (rev t); [|reflexivity].
  replace (- a - - b) with (- (a - b)) by lia. symmetry. apply Z.divide_opp_r.
Qed.
Lemma allpairs_map_iff (R : Z -> Z -> Prop) (f : Z -> Z) l :
  allpairs (fun x y => R (f x) (f y)) l <-> allpairs R (map f l).
Proof.
  induction l as [|x l IH]; [cbn; tauto|]. cbn [map allpairs]. rewrite IH. split; intros [H1 H2]; split; try assumption.
  - intros y Hy. apply in_map_iff in Hy. destruct Hy as (u & <- & Hu). exact (H1 u Hu).
  - intros y Hy. apply H1, in_map, Hy.
Qed.

(** np.arange *)
Lemma arange_aux_key t n : forall x s,
  map (key t) (arange_aux n x (if rev t then - s else s)) = arange_aux n (key t x) s.
Proof.
  induction n as [|n IH]; intros x s; [reflexivity|]. cbn [arange_aux map]. rewrite IH. f_equal. f_equal.
  unfold key. destruct (rev t); lia.
Qed.
Lemma arange_aux_In n : forall a s y, 0 < s ->
  In y (arange_aux n a s) <-> exists i, 0 <= i < Z.of_nat n /\ y = a + i * s.
Proof.
  induction n as [|n IH]; intros a s y H; cbn [arange_aux In].
  - split; [intros []|intros (i & Hi & _); lia].
  - rewrite (IH (a + s) s y H). split.
    + intros [<-|(i & Hi & ->)]; [exists 0; lia|exists (i + 1); lia].
    + intros (i & Hi & ->). destruct (Z.eq_dec i 0) as [->|Ni]; [left; lia|right; exists (i - 1); lia].
Qed.
Lemma arange_aux_sinc n : forall a s, 0 < s -> sinc (arange_aux n a s).
Proof.
  induction n as [|n IH]; intros a s H; cbn [arange_aux]; [exact I|]. split; [|apply IH; exact H].
  intros y Hy. apply arange_aux_In in Hy; [|exact H]. destruct Hy as (i & Hi & ->). nia.
Qed.
Definition ticks_of (t : tk) (freq first : Z) : list Z :=
  arange first (stop t) (if rev t then - freq else freq).
Definition nticks (t : tk) (freq first : Z) : nat :=
  Z.to_nat (cdiv (key t (stop t) - key t first) freq).
Lemma ticks_of_aux t freq first : 0 < freq ->
  ticks_of t freq first = arange_aux (nticks t freq first) first (if rev t then - freq else freq).
Proof.
  intro H. unfold ticks_of, arange, nticks, key. destruct (rev t).
  - assert (0 <? - freq = false) as -> by (apply Z.ltb_ge; lia).
    assert (- freq <? 0 = true) as -> by (apply Z.ltb_lt; lia).
    rewrite Z.opp_involutive. do 3 f_equal. lia.
  - assert (0 <? freq = true) as -> by (apply Z.ltb_lt; lia). reflexivity.
Qed.
Lemma ticks_keys t freq first : 0 < freq ->
  map (key t) (ticks_of t freq first) = arange_aux (nticks t freq first) (key t first) freq.
Proof. intro H. rewrite ticks_of_aux by exact H. apply arange_aux_key. Qed.
Lemma ticks_strict t freq first : 0 < freq -> allpairs (key_lt t) (ticks_of t freq first).
Proof.
  intro H. unfold key_lt. apply (allpairs_map_iff Z.lt (key t)). rewrite ticks_keys by exact H.
  apply arange_aux_sinc. exact H.
Qed.
Lemma ticks_In t freq first x : 0 < freq ->
  In x (ticks_of t freq first) <-> is_tick t freq first x = true.
Proof.
  intro H. unfold is_tick. rewrite !andb_true_iff, sim_le_key, Z.leb_le, before_stop_key, Z.ltb_lt.
  rewrite (grid_key t freq x first H).
  assert (In x (ticks_of t freq first) <-> In (key t x) (map (key t) (ticks_of t freq first))) as ->.
  { split; [apply in_map|]. intro Hi. apply in_map_iff in Hi. destruct Hi as (u & E & Hu).
    apply key_inj in E. subst u. exact Hu. }
  rewrite ticks_keys by exact H. rewrite arange_aux_In by exact H. unfold nticks.
  pose proof (cdiv_spec (key t (stop t) - key t first) freq H) as C.
  split.
  - intros (i & Hi & E). rewrite E. repeat split; [nia| |].
    + exists i. lia.
    + destruct (Z.le_gt_cases (cdiv (key t (stop t) - key t first) freq) 0) as [L|L]; [lia|].
      rewrite Z2Nat.id in Hi by lia. nia.
  - intros [[L [i Ei]] B]. exists i. assert (0 <= i) by nia. split; [|lia].
    split; [lia|]. assert (i < cdiv (key t (stop t) - key t first) freq) by nia. lia.
Qed.

(** latest file time at or before x *)
Lemma later_ext t x x' best y : sim_le t y x = sim_le t y x' -> later t x best y = later t x' best y.
Proof. unfold later. intros ->. reflexivity. Qed.
Lemma latest_ext t l x x' : (forall y, In y l -> sim_le t y x = sim_le t y x') ->
  forall best, fold_left (later t x) l best = fold_left (later t x') l best.
Proof.
  induction l as [|y l IH]; intros H best; [reflexivity|]. cbn [fold_left].
  rewrite (later_ext t x x' best y) by (apply H; left; reflexivity).
  apply IH. intros z Hz. apply H. right. exact Hz.
Qed.
Lemma latest_stays t x l : fold_left (later t x) l (Some x) = Some x.
Proof.
  induction l as [|y l IH]; [reflexivity|]. cbn [fold_left].
  assert (later t x (Some x) y = Some x) as ->; [|exact IH].
  unfold later. rewrite !sim_le_key.
  destruct (Z.leb_spec (key t y) (key t x)) as [L|L]; [|reflexivity].
  destruct (Z.leb_spec (key t x) (key t y)) as [L'|L']; [|reflexivity].
  f_equal. apply (key_inj t). lia.
Qed.
Lemma latest_hit t x l : In x l -> forall best,
  (match best with None => True | Some b => key t b <= key t x end) ->
  fold_left (later t x) l best = Some x.
Proof.
  induction l as [|y l IH]; intros Hx best Hb; [destruct Hx|]. cbn [fold_left].
  destruct (Z.eq_dec y x) as [->|Ny].
  - assert (later t x best x = Some x) as ->; [|apply latest_stays].
    unfold later. rewrite sim_le_key, Z.leb_refl. destruct best as [b|]; [|reflexivity].
    rewrite sim_le_key. apply Z.leb_le in Hb. rewrite Hb. reflexivity.
  - destruct Hx as [E|Hx]; [congruence|]. apply (IH Hx). unfold later. rewrite sim_le_key.
    destruct (Z.leb_spec (key t y) (key t x)) as [L|L]; [|exact Hb].
    destruct best as [b|]; [|exact L]. destruct (sim_le t b y); assumption.
Qed.
Lemma latest_self t W x : In x (map rt W) -> latest t W x = Some x.
Proof. intro H. unfold latest. apply latest_hit; [exact H|exact I]. Qed.

Lemma rows_at_In x W r : In r (rows_at x W) <-> In r W /\ rt r = x.
Proof.
  unfold rows_at, filter_time. rewrite filter_In, Z.eqb_eq. split; intros [A B]; split; congruence.
Qed.
Lemma lookup_some W x : In x (map rt W) -> lookup_group W x = Some (rows_at x W).
Proof.
  intro H. unfold lookup_group. destruct (rows_at x W) as [|r g] eqn:E; [exfalso|reflexivity].
  apply in_map_iff in H. destruct H as (r & Er & Hr).
  assert (In r (rows_at x W)) as Hi by (apply rows_at_In; split; assumption).
  rewrite E in Hi. destruct Hi.
Qed.

Section Cont.
  Variable t : tk.
  Variable freq : Z.
  Variable W : list row.
  Variable first : Z.
  Hypothesis Hf : 0 < freq.
  Hypothesis Hgrid : forall r, In r W -> (freq | key t (rt r) - key t first).
  Definition Gopt (x : Z) : option (list row) :=
    match latest t W x with Some y => Some (rows_at y W) | None => None end.
  Definition Gmap (x : Z) : list row :=
    match latest t W x with Some y => map (retime x) (rows_at y W) | None => [] end.
  Let s' := if rev t then - freq else freq.

  Lemma key_next x : key t (x + s') = key t x + freq.
  Proof. unfold s', key. destruct (rev t); lia. Qed.

  Lemma consec x : (freq | key t x - key t first) ->
    (match lookup_group W (x + s') with Some g => Some g | None => Gopt x end) = Gopt (x + s').
  Proof.
    intros [b Eb]. unfold lookup_group. destruct (rows_at (x + s') W) as [|r g] eqn:E.
    - unfold Gopt, latest. rewrite (latest_ext t (map rt W) x (x + s')); [reflexivity|].
      intros y Hy. apply in_map_iff in Hy. destruct Hy as (r & <- & Hr).
      assert (rt r <> x + s') as Ny.
      { intro Ey. assert (In r (rows_at (x + s') W)) as Hi by (apply rows_at_In; split; assumption).
        rewrite E in Hi. destruct Hi. }
      assert (key t (rt r) <> key t x + freq) as Nk.
      { rewrite <- key_next. intro Ek. apply key_inj in Ek. contradiction. }
      destruct (Hgrid r Hr) as [a Ea]. rewrite !sim_le_key, key_next.
      destruct (Z.leb_spec (key t (rt r)) (key t x)), (Z.leb_spec (key t (rt r)) (key t x + freq));
        try reflexivity; exfalso; [lia|].
      assert (a <= b \/ b + 1 <= a) as [C|C] by lia; nia.
    - assert (In r (rows_at (x + s') W)) as Hi by (rewrite E; left; reflexivity).
      apply rows_at_In in Hi. destruct Hi as [Hr Er].
      unfold Gopt. rewrite latest_self; [rewrite E; reflexivity|].
      rewrite <- Er. apply in_map. exact Hr.
  Qed.

  Lemma ffill_spec n : forall x last, (freq | key t x - key t first) ->
    (match lookup_group W x with Some g => Some g | None => last end) = Gopt x ->
    join_ffill W last (arange_aux n x s') = flat_map Gmap (arange_aux n x s').
  Proof.
    induction n as [|n IH]; intros x last Dx Hl; [reflexivity|].
    cbn [arange_aux join_ffill flat_map]. rewrite Hl. f_equal.
    - unfold Gopt, Gmap. destruct (latest t W x); reflexivity.
    - apply IH; [|apply consec; exact Dx].
      rewrite key_next. replace (key t x + freq - key t first) with (key t x - key t first + freq) by lia.
      apply Z.divide_add_r; [exact Dx|apply Z.divide_refl].
  Qed.

  Lemma discretize_spec r0 W' : W = r0 :: W' -> first = rt r0 ->
    discretize t freq W = flat_map Gmap (ticks_of t freq first).
  Proof.
    intros EW Ef. unfold discretize. rewrite EW at 1. rewrite <- Ef.
    fold (ticks_of t freq first). rewrite ticks_of_aux by exact Hf. fold s'.
    assert (In first (map rt W)) as Hin by (rewrite EW, Ef; left; reflexivity).
    apply ffill_spec.
    - rewrite Z.sub_diag. apply Z.divide_0_r.
    - rewrite (lookup_some W first Hin). unfold Gopt. rewrite (latest_self t W first Hin). reflexivity.
  Qed.

  Lemma Gmap_rt x r : In r (Gmap x) -> rt r = x.
  Proof.
    unfold Gmap. destruct (latest t W x); [|intros []]. intro H. apply in_map_iff in H.
    destruct H as (u & <- & _). reflexivity.
  Qed.
End Cont.

(** tables made of one block of rows per time *)
Lemma filter_blocks (B : Z -> list row) p l : (forall x r, In r (B x) -> rt r = x) ->
  filter_time p (flat_map B l) = flat_map B (filter p l).
Proof.
  intro HB. induction l as [|x l IH]; [reflexivity|]. cbn [flat_map filter]. unfold filter_time in *.
  rewrite filter_app, IH. destruct (p x) eqn:Px; cbn [flat_map].
  - f_equal. apply filter_all. intros r Hr. rewrite (HB x r Hr). exact Px.
  - rewrite filter_nil_all; [reflexivity|]. intros r Hr. rewrite (HB x r Hr). exact Px.
Qed.
Lemma blocks_sorted t (B : Z -> list row) l : (forall x r, In r (B x) -> rt r = x) ->
  allpairs (key_lt t) l -> allpairs (key_le t) (map rt (flat_map B l)).
Proof.
  intros HB. induction l as [|x l IH]; [trivial|]. intros [H1 H2]. cbn [flat_map]. rewrite map_app.
  apply allpairs_app. split; [|split; [exact (IH H2)|]].
  - assert (forall y, In y (map rt (B x)) -> y = x) as Hall.
    { intros y Hy. apply in_map_iff in Hy. destruct Hy as (r & <- & Hr). exact (HB x r Hr). }
    induction (map rt (B x)) as [|a m IHm]; [exact I|]. split.
    + intros y Hy. rewrite (Hall a (or_introl eq_refl)), (Hall y (or_intror Hy)). unfold key_le. lia.
    + apply IHm. intros y Hy. apply Hall. right. exact Hy.
  - intros a b Ha Hb. apply in_map_iff in Ha, Hb. destruct Ha as (ra & <- & Ha), Hb as (rb & <- & Hb).
    apply in_flat_map in Hb. destruct Hb as (z & Hz & Hb).
    rewrite (HB x ra Ha), (HB z rb Hb). pose proof (H1 z Hz) as L. unfold key_lt, key_le in *. lia.
Qed.
Lemma filter_eqb_strict (R : Z -> Z -> Prop) c l : (forall x, ~ R x x) -> allpairs R l ->
  filter (Z.eqb c) l = if existsb (Z.eqb c) l then [c] else [].
Proof.
  intros Irr. induction l as [|x l IH]; [reflexivity|]. intros [H1 H2]. cbn [filter existsb].
  destruct (Z.eqb_spec c x) as [<-|N]; cbn [orb].
  - f_equal. apply filter_nil_all. intros y Hy. apply Z.eqb_neq. intros <-. exact (Irr c (H1 c Hy)).
  - exact (IH H2).
Qed.

Lemma the_start_filter t (warm : bool) tab :
  (if warm then filter_time (after_start t) (filter_time (from_start t) tab)
   else filter_time (from_start t) tab) = filter_time (the_start t warm) tab.
Proof.
  destruct warm; cbn [the_start]; [|reflexivity]. rewrite filter_time_filter_time.
  apply filter_time_ext. intro x. cbn [the_start]. rewrite from_start_key, after_start_key.
  destruct (Z.leb_spec (key t (start t)) (key t x)), (Z.ltb_spec (key t (start t)) (key t x));
    try reflexivity; lia.
Qed.
Lemma the_start_from t warm x : the_start t warm x = true -> from_start t x = true.
Proof.
  destruct warm; cbn [the_start]; [|trivial]. rewrite from_start_key, after_start_key.
  intro H. apply Z.ltb_lt in H. apply Z.leb_le. lia.
Qed.
Lemma cont_ok_spec t freq tab r0 W' : filter_time (before_stop t) tab = r0 :: W' ->
  cont_ok t freq tab = true ->
  0 < freq /\ (dt t | freq) /\ allpairs (key_le t) (map rt (r0 :: W')) /\
  (forall r, In r (r0 :: W') -> (freq | key t (rt r) - key t (rt r0))) /\ on_grid t (rt r0) = true.
Proof.
  intros E. unfold cont_ok. rewrite E. rewrite !andb_true_iff. intros ((((A & B) & C) & G) & O).
  apply Z.ltb_lt in A. apply Z.eqb_eq in B. split; [exact A|]. split; [|split; [|split; [|exact O]]].
  - apply Z.mod_divide in B; [exact B|]. intros Z0. rewrite Z0 in B. rewrite Zmod_0_r in B. lia.
  - apply sim_sorted_allpairs. exact C.
  - intros r Hr. unfold freq_grid in G. rewrite forallb_forall in G. apply (grid_key t freq _ _ A).
    exact (G r Hr).
Qed.

(** T2 (cold and warm start, both directions) *)
Lemma continuous_schedule t freq warm tab D groups steps :
  0 < dt t -> cont_ok t freq tab = true ->
  rel_init t (Some freq) warm tab = RelOk D groups steps ->
  forall N, run_upto groups steps N =
    Some ({| idx := length (filter (fun x => time2step t x <? Z.of_nat N) (uniq (map rt D))) |},
          map (fun k => cont_released_at t freq warm tab (Z.of_nat k)) (seq 0 N)).
Proof.
  intros H Ok I N. unfold rel_init in I. unfold cont_released_at.
  remember (filter_time (before_stop t) tab) as W eqn:EW.
  destruct W as [|r0 W']; [discriminate|]. symmetry in EW.
  destruct (cont_ok_spec t freq tab r0 W' EW Ok) as (Hf & Hdf & Hsort & Hgrid & Hog).
  set (W := r0 :: W') in *. set (first := rt r0) in *.
  rewrite the_start_filter in I.
  rewrite (discretize_spec t freq W first Hf Hgrid r0 W' eq_refl eq_refl) in I.
  rewrite (filter_blocks (Gmap t W) _ _ (Gmap_rt t W)) in I.
  set (ticks' := filter (the_start t warm) (ticks_of t freq first)) in *.
  set (D' := flat_map (Gmap t W) ticks') in *.
  assert (D = D' /\ groups = group_by_time D' /\ steps = map (time2step t) (uniq (map rt D'))) as (-> & -> & ->).
  { destruct D' as [|r d]; destruct warm; try discriminate; injection I as <- <- <-; repeat split. }
  assert (allpairs (key_lt t) ticks') as Hst by (apply allpairs_filter, ticks_strict; exact Hf).
  assert (forall x, In x ticks' -> on_grid t x = true /\ the_start t warm x = true) as Htk.
  { intros x Hx. apply filter_In in Hx. destruct Hx as [Hx Sx]. split; [|exact Sx].
    apply ticks_In in Hx; [|exact Hf]. unfold is_tick in Hx. rewrite !andb_true_iff in Hx.
    destruct Hx as [[_ Gx] _]. apply (grid_key t freq _ _ Hf) in Gx.
    apply on_grid_key; [exact H|]. apply on_grid_key in Hog; [|exact H].
    replace (key t x - key t (start t)) with ((key t x - key t first) + (key t first - key t (start t))) by lia.
    apply Z.divide_add_r; [exact (Z.divide_trans _ _ _ Hdf Gx)|exact Hog]. }
  assert (forall r, In r D' -> In (rt r) ticks') as HD.
  { intros r Hr. apply in_flat_map in Hr. destruct Hr as (x & Hx & Hr).
    rewrite (Gmap_rt t W x r Hr). exact Hx. }
  rewrite (rel_core t D' H).
  - f_equal. f_equal. apply map_ext. intro k.
    change (filter (fun r => time2step t (rt r) =? Z.of_nat k) D')
      with (filter_time (fun x => time2step t x =? Z.of_nat k) D').
    unfold D'. rewrite (filter_blocks (Gmap t W) _ _ (Gmap_rt t W)).
    set (c := step2time t (Z.of_nat k)).
    assert (filter (fun x => time2step t x =? Z.of_nat k) ticks' = filter (Z.eqb c) ticks') as ->.
    { apply filter_ext_in. intros x Hx. destruct (Htk x Hx) as [Gx _].
      unfold on_grid in Gx. apply Z.eqb_eq in Gx.
      destruct (Z.eqb_spec (time2step t x) (Z.of_nat k)) as [E|E], (Z.eqb_spec c x) as [E'|E']; try reflexivity; exfalso.
      - apply E'. unfold c. rewrite <- E. apply step2time_time2step; assumption.
      - apply E. rewrite <- E'. unfold c. apply time2step_step2time. exact H. }
    rewrite (filter_eqb_strict (key_lt t) c ticks'); [|unfold key_lt; intros x; lia|exact Hst].
    destruct (is_tick t freq first c && the_start t warm c) eqn:Eb.
    + assert (existsb (Z.eqb c) ticks' = true) as ->.
      { apply existsb_exists. exists c. split; [|apply Z.eqb_refl]. apply andb_true_iff in Eb.
        apply filter_In. split; [apply ticks_In; tauto|tauto]. }
      cbn [flat_map]. rewrite app_nil_r. unfold Gmap. destruct (latest t W c); reflexivity.
    + assert (existsb (Z.eqb c) ticks' = false) as ->; [|reflexivity].
      destruct (existsb (Z.eqb c) ticks') eqn:Ex; [exfalso|reflexivity].
      apply existsb_exists in Ex. destruct Ex as (y & Hy & Ey). apply Z.eqb_eq in Ey. subst y.
      apply filter_In in Hy. destruct Hy as [Hy Sy]. apply ticks_In in Hy; [|exact Hf].
      fold first in Eb. rewrite Hy, Sy in Eb. discriminate.
  - apply table_ok_spec. split; [apply blocks_sorted; [apply Gmap_rt|exact Hst]|].
    intros r Hr. apply (Htk _ (HD r Hr)).
  - intros r Hr. apply (the_start_from t warm). apply (Htk _ (HD r Hr)).
Qed.

(** in continuous mode the start-up is refused when nothing lies before the stop time *)
Lemma refusal_cont_nothing t freq warm tab :
  filter_time (before_stop t) tab = [] -> rel_init t (Some freq) warm tab = RelExit.
Proof. intro E. unfold rel_init. rewrite E. reflexivity. Qed.
