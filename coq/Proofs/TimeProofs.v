(** Proofs about Model/Time.v *)
From Coq Require Import ZArith QArith List Bool String Ascii Lia.
From Ladim Require Import Base.Num Model.Time.
Import ListNotations.
Open Scope Z_scope.

(** T1: the clock reads start +/- n*dt at step n, after n+1 updates *)
Lemma clock_after_spec t k :
  cstep (clock_after t k) = Z.of_nat k - 1 /\
  ctime (clock_after t k) = step2time t (Z.of_nat k - 1).
Proof.
  induction k as [|k [IH1 IH2]].
  - cbn. split; reflexivity.
  - cbn [clock_after clock_update cstep ctime]. rewrite IH1, IH2. unfold step2time.
    split; [lia|]. destruct (rev t); lia.
Qed.

Lemma clock_at_step t n : 0 <= n ->
  let c := clock_after t (Z.to_nat (n + 1)) in
  cstep c = n /\ ctime c = (if rev t then start t - n * dt t else start t + n * dt t).
Proof.
  intros Hn c. subst c. destruct (clock_after_spec t (Z.to_nat (n + 1))) as [A B].
  rewrite A, B. unfold step2time. rewrite Z2Nat.id by lia.
  replace (n + 1 - 1) with n by lia. split; reflexivity.
Qed.

(** T2 *)
Lemma nsteps_floor t : 0 < dt t ->
  nsteps t * dt t <= Z.abs (stop t - start t) < (nsteps t + 1) * dt t.
Proof.
  intro H. unfold nsteps.
  pose proof (Z.div_mod (Z.abs (stop t - start t)) (dt t) ltac:(lia)).
  pose proof (Z.mod_pos_bound (Z.abs (stop t - start t)) (dt t) H). nia.
Qed.

(** T3 *)
Lemma time2step_step2time t n : 0 < dt t -> time2step t (step2time t n) = n.
Proof.
  intro H. unfold time2step, step2time. destruct (rev t).
  - replace (start t - (start t - n * dt t)) with (n * dt t) by lia. apply Z.div_mul. lia.
  - replace (start t + n * dt t - start t) with (n * dt t) by lia. apply Z.div_mul. lia.
Qed.
Lemma step2time_time2step t x : 0 < dt t -> (x - start t) mod dt t = 0 ->
  step2time t (time2step t x) = x.
Proof.
  intros H M. unfold time2step, step2time. destruct (rev t).
  - assert ((start t - x) mod dt t = 0) as M'.
    { replace (start t - x) with (- (x - start t)) by lia. apply Z.mod_opp_l_z; [lia|exact M]. }
    pose proof (Z.div_mod (start t - x) (dt t) ltac:(lia)). nia.
  - pose proof (Z.div_mod (x - start t) (dt t) ltac:(lia)). nia.
Qed.
(** a time inside step n's interval maps to n (floor) *)
Lemma time2step_floor t x n : 0 < dt t -> rev t = false ->
  step2time t n <= x < step2time t (n + 1) -> time2step t x = n.
Proof.
  intros H R. unfold time2step, step2time. rewrite R. intros [A B].
  symmetry. apply Z.div_unique with (r := x - start t - n * dt t); lia.
Qed.

(** T4 *)
Lemma nctime_clock t n u : 0 <= n ->
  nctime t (clock_after t (Z.to_nat (n + 1))) u = step2nctime t n u.
Proof.
  intro Hn. unfold nctime, step2nctime.
  destruct (clock_at_step t n Hn) as [_ B]. cbv zeta in B. rewrite B. reflexivity.
Qed.
Lemma step2nctime_seconds t n : (step2nctime t n 0 == inject_Z (step2time t n - ref t))%Q.
Proof. unfold step2nctime. cbn. field. Qed.

(** tk_init *)
Lemma tk_init_ok s e d r rv t :
  tk_init (Some s) (Some e) d r rv = InitOk t ->
  d <> 0 /\ (rv = true <-> e < s) /\ start t = s /\ stop t = e /\ dt t = d /\ rev t = rv.
Proof.
  unfold tk_init. destruct (d =? 0) eqn:E; [discriminate|].
  destruct (negb (Bool.eqb rv (e - s <? 0))) eqn:E2; [discriminate|].
  intro H. injection H as <-. cbn. apply Z.eqb_neq in E.
  apply negb_false_iff, Bool.eqb_prop in E2. repeat split; try assumption; try reflexivity.
  - intros ->. symmetry in E2. apply Z.ltb_lt in E2. lia.
  - intro L. rewrite E2. apply Z.ltb_lt. lia.
Qed.
Lemma tk_init_refuses_missing d r rv e s :
  tk_init None e d r rv = InitExit /\ tk_init s None d r rv = InitExit /\ tk_init s e 0 r rv = InitExit.
Proof. unfold tk_init. destruct s, e; repeat split; reflexivity. Qed.
Lemma tk_init_refuses_direction s e d r rv :
  (rv = true /\ s <= e) \/ (rv = false /\ e < s) -> tk_init (Some s) (Some e) d r rv = InitExit.
Proof.
  unfold tk_init. intros [[-> H]|[-> H]]; destruct (d =? 0); try reflexivity.
  - assert (e - s <? 0 = false) as -> by (apply Z.ltb_ge; lia). reflexivity.
  - assert (e - s <? 0 = true) as -> by (apply Z.ltb_lt; lia). reflexivity.
Qed.

(** T5: spellings *)
Open Scope string_scope.
Lemma period_spellings n :
  normalize_period (PInt n) = Some n /\ normalize_period (PDelta n) = Some n /\
  normalize_period (PList n "s") = Some n /\
  normalize_period (PList n "m") = Some (n * 60) /\
  normalize_period (PList n "h") = Some (n * 3600).
Proof. cbn. rewrite Z.mul_1_r. repeat split. Qed.

(** recogniser *)
Lemma take_digits_app ds : forall acc len c rest,
  all_digits ds = true -> is_digit c = false ->
  take_digits (ds ++ String c rest) acc len =
  (digits_value ds acc, (len + String.length ds)%nat, String c rest).
Proof.
  induction ds as [|d ds IH]; intros acc len c rest Hd Hc.
  - cbn. rewrite Hc. rewrite Nat.add_0_r. reflexivity.
  - cbn in Hd. apply andb_true_iff in Hd as [Hd1 Hd2].
    cbn [append take_digits]. rewrite Hd1. rewrite IH by assumption.
    cbn [digits_value String.length]. f_equal. f_equal. lia.
Qed.

Lemma group_some L ds rest : all_digits ds = true -> (0 < String.length ds)%nat ->
  is_digit L = false ->
  group L (ds ++ String L rest) = (Some (digits_value ds 0), rest).
Proof.
  intros Hd Hl HL. unfold group. rewrite take_digits_app by assumption.
  cbn [Nat.add]. apply Nat.ltb_lt in Hl. rewrite Hl. rewrite Ascii.eqb_refl. reflexivity.
Qed.
Lemma group_none_other L c ds rest : all_digits ds = true -> is_digit c = false -> c <> L ->
  group L (ds ++ String c rest) = (None, ds ++ String c rest).
Proof.
  intros Hd Hc Hne. unfold group. rewrite take_digits_app by assumption.
  apply Ascii.eqb_neq in Hne. rewrite Hne. rewrite andb_false_r. reflexivity.
Qed.
Lemma group_none_empty L : group L "" = (None, "").
Proof. reflexivity. Qed.

(** ** the recogniser accepts exactly the rendered forms *)
Lemma is_digit_H : is_digit "H" = false. Proof. reflexivity. Qed.
Lemma is_digit_M : is_digit "M" = false. Proof. reflexivity. Qed.
Lemma is_digit_S : is_digit "S" = false. Proof. reflexivity. Qed.

Definition some_present (oh om os : option string) : bool :=
  match oh, om, os with None, None, None => false | _, _, _ => true end.

Lemma wf_part_some ds : wf_part (Some ds) = true -> all_digits ds = true /\ (0 < String.length ds)%nat.
Proof. unfold wf_part. intro H. apply andb_true_iff in H as [A B]. apply Nat.ltb_lt in A. split; assumption. Qed.

Lemma parse_render oh om os :
  wf_part oh = true -> wf_part om = true -> wf_part os = true -> some_present oh om os = true ->
  parse_iso (render_iso oh om os) =
  Some (3600 * part_value oh + 60 * part_value om + part_value os).
Proof.
  intros Wh Wm Ws P. unfold render_iso. cbn [append parse_iso].
  destruct oh as [h|], om as [m|], os as [s|]; try discriminate P;
    repeat match goal with
    | H : wf_part (Some _) = true |- _ => apply wf_part_some in H; destruct H
    end; cbn [part part_value];
    repeat (first
      [ rewrite group_some by (first [assumption | reflexivity])
      | rewrite group_none_other by (first [assumption | reflexivity | discriminate])
      | rewrite group_none_empty ]);
    reflexivity.
Qed.

Lemma take_digits_inv s : forall acc len v len' rest,
  take_digits s acc len = (v, len', rest) ->
  exists ds, s = ds ++ rest /\ all_digits ds = true /\ len' = (len + String.length ds)%nat /\
             v = digits_value ds acc.
Proof.
  induction s as [|c s IH]; intros acc len v len' rest H.
  - cbn in H. injection H as <- <- <-. exists "". cbn. rewrite Nat.add_0_r. repeat split.
  - cbn in H. destruct (is_digit c) eqn:D.
    + apply IH in H as (ds & -> & A & -> & ->). exists (String c ds). cbn. rewrite D, A.
      repeat split. lia.
    + injection H as <- <- <-. exists "". cbn. rewrite Nat.add_0_r. repeat split.
Qed.

Lemma group_inv L s o r : group L s = (o, r) ->
  match o with
  | Some v => exists ds, s = ds ++ String L r /\ all_digits ds = true /\
                         (0 < String.length ds)%nat /\ v = digits_value ds 0
  | None => r = s
  end.
Proof.
  unfold group. destruct (take_digits s 0 0) as [[v len] rest] eqn:T.
  apply take_digits_inv in T as (ds & -> & A & -> & ->).
  destruct rest as [|c rest].
  - intro H. injection H as <- <-. reflexivity.
  - destruct ((0 <? 0 + String.length ds)%nat && Ascii.eqb c L) eqn:E.
    + intro H. injection H as <- <-. apply andb_true_iff in E as [E1 E2].
      apply Nat.ltb_lt in E1. apply Ascii.eqb_eq in E2. subst c.
      exists ds. repeat split; try assumption; try lia.
    + intro H. injection H as <- <-. reflexivity.
Qed.

Lemma parse_iso_sound s v : parse_iso s = Some v ->
  exists oh om os, wf_part oh = true /\ wf_part om = true /\ wf_part os = true /\
    some_present oh om os = true /\ s = render_iso oh om os /\
    v = 3600 * part_value oh + 60 * part_value om + part_value os.
Proof.
  unfold parse_iso.
  destruct s as [|c0 s]; [discriminate|].
  destruct c0 as [[] [] [] [] [] [] [] []]; try discriminate.
  destruct s as [|c1 s]; [discriminate|].
  destruct c1 as [[] [] [] [] [] [] [] []]; try discriminate.
  destruct (group "H" s) as [h r1] eqn:G1.
  destruct (group "M" r1) as [m r2] eqn:G2.
  destruct (group "S" r2) as [sec r3] eqn:G3.
  destruct r3; [|discriminate].
  apply group_inv in G1, G2, G3.
  assert (forall ds, all_digits ds = true -> (0 < String.length ds)%nat -> wf_part (Some ds) = true) as W.
  { intros ds A B. unfold wf_part. rewrite A. apply Nat.ltb_lt in B. rewrite B. reflexivity. }
  destruct h as [h|], m as [m|], sec as [sec|];
    repeat match goal with
    | H : exists _, _ |- _ => destruct H as (? & ? & ? & ? & ?)
    end; subst; intro H; try discriminate H; injection H as <-.
  - eexists (Some _), (Some _), (Some _). repeat split; try (apply W; assumption); reflexivity.
  - eexists (Some _), (Some _), None. repeat split; try (apply W; assumption); reflexivity.
  - eexists (Some _), None, (Some _). repeat split; try (apply W; assumption); reflexivity.
  - eexists (Some _), None, None. repeat split; try (apply W; assumption); reflexivity.
  - eexists None, (Some _), (Some _). repeat split; try (apply W; assumption); reflexivity.
  - eexists None, (Some _), None. repeat split; try (apply W; assumption); reflexivity.
  - eexists None, None, (Some _). repeat split; try (apply W; assumption); reflexivity.
Qed.

Theorem iso_recogniser_exact_lemma s v :
  parse_iso s = Some v <->
  exists oh om os, wf_part oh = true /\ wf_part om = true /\ wf_part os = true /\
    some_present oh om os = true /\ s = render_iso oh om os /\
    v = 3600 * part_value oh + 60 * part_value om + part_value os.
Proof.
  split; [apply parse_iso_sound|].
  intros (oh & om & os & A & B & C & D & -> & ->). apply parse_render; assumption.
Qed.
