(** Soundness of the float-level correspondence checker Corr/C01F.v with respect to the proved error bounds:
    whenever [check_case] accepts a step case with code 0 (EF), 1 (RK2) or 2 (RK4), the values the REAL code
    produced -- the coordinates at which it asked the forcing and the coordinate after the step, decoded from
    their bit patterns -- ARE the model's values, are finite, and lie within the proved distance of the exact
    Runge-Kutta step with the same stage velocities (exactly clipped stage positions; the final position is not
    clipped).  So every case the harness replays under these codes is an instance of (T2)/(T3) of
    Proofs/TrackerFloatProofs.v for the arithmetic the machine code really performed. *)
From Coq Require Import ZArith Reals List Bool Floats.
From Ladim Require Import Model.TrilinearFloat Model.TrackerFloat Corr.C01F Proofs.TrilinearFloatProofs
  Proofs.TrackerFloatProofs.
Import ListNotations.

Lemma sf_same_eq : forall x y, sf_same x y = true -> x = y.
Proof.
  intros [s| s| |s m e] [t| t| |t n f]; simpl; try discriminate; intros H.
  - apply eqb_prop in H. congruence.
  - apply eqb_prop in H. congruence.
  - reflexivity.
  - apply andb_true_iff in H. destruct H as [H H3]. apply andb_true_iff in H. destruct H as [H1 H2].
    apply eqb_prop in H1. apply Pos.eqb_eq in H2. apply Z.eqb_eq in H3. congruence.
Qed.

Lemma same_bits_eq : forall x y : float, same_bits x y = true -> x = y.
Proof. intros x y H. apply Prim2SF_inj. apply sf_same_eq. exact H. Qed.

Lemma result_agrees_eq : forall m rb, result_agrees m rb = true -> float_of_bits rb = m.
Proof.
  intros m rb H. unfold result_agrees in H. apply andb_true_iff in H. destruct H as [H _].
  symmetry. apply same_bits_eq. exact H.
Qed.

Open Scope R_scope.

Theorem check_case_sound_ef : forall xb dtb dxb lob hib u1b fb,
  check_case [0%Z; xb; dtb; dxb; lob; hib; u1b; fb] = true ->
  let x := float_of_bits xb in let dt := float_of_bits dtb in let dx := float_of_bits dxb in
  let u1 := float_of_bits u1b in
  let observed := float_of_bits fb in
  observed = snd (ef_f x dt dx (float_of_bits lob) (float_of_bits hib) u1) /\
  fin observed /\
  Rabs (FR observed - (FR x + FR u1 * FR dt / FR dx)) <= move_bound (FR x) (FR u1) (FR dt) (FR dx).
Proof.
  intros xb dtb dxb lob hib u1b fb H. cbv zeta.
  unfold check_case in H. apply andb_true_iff in H. destruct H as [Hs Hb].
  change (step_ok (float_of_bits xb) (float_of_bits dtb) (float_of_bits dxb) (float_of_bits lob) (float_of_bits hib)
            [float_of_bits u1b] = true) in Hs.
  change ((forallb pattern_ok [xb; dtb; dxb; lob; hib; u1b; fb] &&
           (true && result_agrees (snd (ef_f (float_of_bits xb) (float_of_bits dtb) (float_of_bits dxb)
                                          (float_of_bits lob) (float_of_bits hib) (float_of_bits u1b))) fb))%bool = true) in Hb.
  apply andb_true_iff in Hb. destruct Hb as [_ Hb]. simpl in Hb. apply result_agrees_eq in Hb.
  rewrite Hb. split; [reflexivity|].
  destruct (ef_f_checked _ _ _ _ _ _ Hs) as (_ & F & E). split; assumption.
Qed.
Print Assumptions check_case_sound_ef.

Theorem check_case_sound_rk2 : forall xb dtb dxb lob hib u1b u2b p1b fb,
  check_case [1%Z; xb; dtb; dxb; lob; hib; u1b; u2b; p1b; fb] = true ->
  let x := float_of_bits xb in let dt := float_of_bits dtb in let dx := float_of_bits dxb in
  let lo := float_of_bits lob in let hi := float_of_bits hib in
  let u1 := float_of_bits u1b in let u2 := float_of_bits u2b in
  let asked := float_of_bits p1b in
  let observed := float_of_bits fb in
  ([asked], observed) = rk2_f x dt dx lo hi u1 u2 /\
  fin asked /\
  Rabs (FR asked - clip_R (FR x + / 2 * FR u1 * (FR dt / FR dx)) (FR lo) (FR hi))
    <= stage_bound (FR x) (/ 2) (FR u1) (FR dt) (FR dx) /\
  (FR lo <= FR hi -> FR lo <= FR asked <= FR hi) /\
  fin observed /\
  Rabs (FR observed - (FR x + FR u2 * FR dt / FR dx)) <= move_bound (FR x) (FR u2) (FR dt) (FR dx).
Proof.
  intros xb dtb dxb lob hib u1b u2b p1b fb H. cbv zeta.
  unfold check_case in H. apply andb_true_iff in H. destruct H as [Hs Hb].
  change (step_ok (float_of_bits xb) (float_of_bits dtb) (float_of_bits dxb) (float_of_bits lob) (float_of_bits hib)
            [float_of_bits u1b; float_of_bits u2b] = true) in Hs.
  set (r := rk2_f (float_of_bits xb) (float_of_bits dtb) (float_of_bits dxb) (float_of_bits lob) (float_of_bits hib)
              (float_of_bits u1b) (float_of_bits u2b)) in *.
  change ((forallb pattern_ok [xb; dtb; dxb; lob; hib; u1b; u2b; p1b; fb] &&
           (results_agree (fst r) [p1b] && result_agrees (snd r) fb))%bool = true) in Hb.
  apply andb_true_iff in Hb. destruct Hb as [_ Hb]. apply andb_true_iff in Hb. destruct Hb as [Hp Hf].
  destruct (rk2_f_checked _ _ _ _ _ _ _ Hs) as (x1 & E1 & F1 & B1 & R1 & Ff & Bf). fold r in E1, Ff, Bf.
  rewrite E1 in Hp. simpl in Hp. apply andb_true_iff in Hp. destruct Hp as [Hp _].
  apply result_agrees_eq in Hp, Hf. rewrite Hp, Hf.
  split; [rewrite (surjective_pairing r), E1; reflexivity|]. repeat split; try assumption; apply R1; assumption.
Qed.
Print Assumptions check_case_sound_rk2.

Theorem check_case_sound_rk4 : forall xb dtb dxb lob hib u1b u2b u3b u4b p1b p2b p3b fb,
  check_case [2%Z; xb; dtb; dxb; lob; hib; u1b; u2b; u3b; u4b; p1b; p2b; p3b; fb] = true ->
  let x := float_of_bits xb in let dt := float_of_bits dtb in let dx := float_of_bits dxb in
  let lo := float_of_bits lob in let hi := float_of_bits hib in
  let u1 := float_of_bits u1b in let u2 := float_of_bits u2b in
  let u3 := float_of_bits u3b in let u4 := float_of_bits u4b in
  let a1 := float_of_bits p1b in let a2 := float_of_bits p2b in let a3 := float_of_bits p3b in
  let observed := float_of_bits fb in
  let stage_ok (s : float) (f u : R) :=
    fin s /\
    Rabs (FR s - clip_R (FR x + f * u * (FR dt / FR dx)) (FR lo) (FR hi)) <= stage_bound (FR x) f u (FR dt) (FR dx) /\
    (FR lo <= FR hi -> FR lo <= FR s <= FR hi) in
  ([a1; a2; a3], observed) = rk4_f x dt dx lo hi u1 u2 u3 u4 /\
  stage_ok a1 (/ 2) (FR u1) /\ stage_ok a2 (/ 2) (FR u2) /\ stage_ok a3 1 (FR u3) /\
  fin observed /\
  Rabs (FR observed - (FR x + rk4avg_R (FR u1) (FR u2) (FR u3) (FR u4) * FR dt / FR dx))
    <= rk4_bound (FR x) (maxabs4 (FR u1) (FR u2) (FR u3) (FR u4)) (FR dt) (FR dx).
Proof.
  intros xb dtb dxb lob hib u1b u2b u3b u4b p1b p2b p3b fb H. cbv zeta.
  unfold check_case in H. apply andb_true_iff in H. destruct H as [Hs Hb].
  change (step_ok (float_of_bits xb) (float_of_bits dtb) (float_of_bits dxb) (float_of_bits lob) (float_of_bits hib)
            [float_of_bits u1b; float_of_bits u2b; float_of_bits u3b; float_of_bits u4b] = true) in Hs.
  set (r := rk4_f (float_of_bits xb) (float_of_bits dtb) (float_of_bits dxb) (float_of_bits lob) (float_of_bits hib)
              (float_of_bits u1b) (float_of_bits u2b) (float_of_bits u3b) (float_of_bits u4b)) in *.
  change ((forallb pattern_ok [xb; dtb; dxb; lob; hib; u1b; u2b; u3b; u4b; p1b; p2b; p3b; fb] &&
           (results_agree (fst r) [p1b; p2b; p3b] && result_agrees (snd r) fb))%bool = true) in Hb.
  apply andb_true_iff in Hb. destruct Hb as [_ Hb]. apply andb_true_iff in Hb. destruct Hb as [Hp Hf].
  destruct (rk4_f_checked _ _ _ _ _ _ _ _ _ Hs) as (x1 & x2 & x3 & E1 & S1 & S2 & S3 & Ff & Bf).
  fold r in E1, Ff, Bf.
  rewrite E1 in Hp. simpl in Hp. rewrite !andb_true_iff in Hp. destruct Hp as (Hp1 & Hp2 & Hp3 & _).
  apply result_agrees_eq in Hp1, Hp2, Hp3, Hf. rewrite Hp1, Hp2, Hp3, Hf.
  split; [rewrite (surjective_pairing r), E1; reflexivity|]. repeat split; try tauto.
Qed.
Print Assumptions check_case_sound_rk4.

(** the kernel-level codes: an accepted case IS the model's value *)
Theorem check_case_sound_stage : forall xb fracb ub gb lob hib rb,
  check_case [3%Z; xb; fracb; ub; gb; lob; hib; rb] = true ->
  float_of_bits rb = stage_f (float_of_bits xb) (float_of_bits fracb) (float_of_bits ub) (float_of_bits gb)
                       (float_of_bits lob) (float_of_bits hib).
Proof.
  intros xb fracb ub gb lob hib rb H. unfold check_case in H. apply andb_true_iff in H. destruct H as [_ Hb].
  change ((forallb pattern_ok [xb; fracb; ub; gb; lob; hib; rb] &&
           result_agrees (stage_f (float_of_bits xb) (float_of_bits fracb) (float_of_bits ub) (float_of_bits gb)
                            (float_of_bits lob) (float_of_bits hib)) rb)%bool = true) in Hb.
  apply andb_true_iff in Hb. destruct Hb as [_ Hb]. apply result_agrees_eq. exact Hb.
Qed.

Theorem check_case_sound_avg : forall u1 u2 u3 u4 rb,
  check_case [4%Z; u1; u2; u3; u4; rb] = true ->
  float_of_bits rb = rk4avg_f (float_of_bits u1) (float_of_bits u2) (float_of_bits u3) (float_of_bits u4).
Proof.
  intros u1 u2 u3 u4 rb H. unfold check_case in H. apply andb_true_iff in H. destruct H as [_ Hb].
  change ((forallb pattern_ok [u1; u2; u3; u4; rb] &&
           result_agrees (rk4avg_f (float_of_bits u1) (float_of_bits u2) (float_of_bits u3) (float_of_bits u4)) rb)%bool = true) in Hb.
  apply andb_true_iff in Hb. destruct Hb as [_ Hb]. apply result_agrees_eq. exact Hb.
Qed.
Print Assumptions check_case_sound_avg.
