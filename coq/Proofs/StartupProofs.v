(** Proofs/StartupProofs.v — lemmas about Model/Startup.v (property C20). *)
From Coq Require Import ZArith List Bool Lia.
From Ladim Require Import Base.Num Model.Time Proofs.TimeProofs Model.Release Proofs.ReleaseProofs
  Model.Startup.
Import ListNotations.
Open Scope Z_scope.

(** * A. sorting, index, pre-step *)
Lemma insert_In x l y : In y (insert x l) <-> y = x \/ In y l.
Proof.
  induction l as [|a l IH]; cbn [insert In]; [intuition|].
  destruct (x <=? a); cbn [In]; [intuition|]. rewrite IH. intuition.
Qed.
Lemma sort_In l y : In y (sort l) <-> In y l.
Proof.
  induction l as [|a l IH]; [reflexivity|]. cbn [sort fold_right]. fold (sort l).
  rewrite insert_In, IH. cbn [In]. intuition.
Qed.
Lemma insert_filter_length p x l :
  length (filter p (insert x l)) = length (filter p (x :: l)).
Proof.
  induction l as [|a l IH]; [reflexivity|]. cbn [insert]. destruct (x <=? a); [reflexivity|].
  cbn [filter] in *. destruct (p a), (p x); cbn [length] in *; lia.
Qed.
Lemma sort_filter_length p l : length (filter p (sort l)) = length (filter p l).
Proof.
  induction l as [|a l IH]; [reflexivity|]. cbn [sort fold_right]. fold (sort l).
  rewrite insert_filter_length. cbn [filter]. destruct (p a); cbn [length]; lia.
Qed.
Lemma insert_sorted x l : allpairs Z.le l -> allpairs Z.le (insert x l).
Proof.
  induction l as [|a l IH]; intro H; [cbn; split; [intros ? []|exact I]|].
  cbn [insert]. destruct (Z.leb_spec x a) as [L|L].
  - destruct H as [H1 H2]. split; [|split; assumption].
    intros y [<-|Hy]; [exact L|]. specialize (H1 y Hy). lia.
  - destruct H as [H1 H2]. cbn [allpairs]. split; [|apply IH; exact H2].
    intros y Hy. apply insert_In in Hy. destruct Hy as [->|Hy]; [lia|exact (H1 y Hy)].
Qed.
Lemma sort_sorted l : allpairs Z.le (sort l).
Proof.
  induction l as [|a l IH]; [exact I|]. cbn [sort fold_right]. fold (sort l). apply insert_sorted, IH.
Qed.
Lemma filter_split_length (p : Z) (l : list Z) :
  length l = (length (filter (fun x => (x <? p)%Z) l) + length (filter (fun x => (p <=? x)%Z) l))%nat.
Proof.
  induction l as [|a l IH]; [reflexivity|]. cbn [filter length].
  destruct (Z.ltb_spec a p), (Z.leb_spec p a); cbn [length]; lia.
Qed.
Lemma index_of_sorted p l : allpairs Z.le l -> In p l ->
  index_of p l = Some (length (filter (fun x => x <? p) l)).
Proof.
  induction l as [|a l IH]; intros S Hp; [destruct Hp|]. destruct S as [S1 S2]. cbn [index_of filter].
  destruct (Z.eqb_spec a p) as [->|N].
  - rewrite Z.ltb_irrefl. rewrite filter_nil_all; [reflexivity|].
    intros y Hy. apply Z.ltb_ge. exact (S1 y Hy).
  - destruct Hp as [E|Hp]; [contradiction|]. specialize (S1 p Hp).
    assert (a <? p = true) as -> by (apply Z.ltb_lt; lia). rewrite (IH S2 Hp). reflexivity.
Qed.

Lemma max_neg_none l : max_neg l = None -> forall x, In x l -> 0 <= x.
Proof.
  induction l as [|a l IH]; intros H x Hx; [destruct Hx|]. cbn [max_neg fold_right] in H.
  fold (max_neg l) in H. destruct (Z.ltb_spec a 0) as [L|L]; [discriminate|].
  destruct Hx as [<-|Hx]; [exact L|exact (IH H x Hx)].
Qed.
Lemma max_neg_some l p : max_neg l = Some p ->
  In p l /\ p < 0 /\ forall x, In x l -> x < 0 -> x <= p.
Proof.
  revert p. induction l as [|a l IH]; intros p H; [discriminate|]. cbn [max_neg fold_right] in H.
  fold (max_neg l) in H. destruct (Z.ltb_spec a 0) as [L|L].
  - destruct (max_neg l) as [q|] eqn:E.
    + destruct (IH q eq_refl) as (I1 & I2 & I3). injection H as <-.
      split; [|split].
      * destruct (Z.max_spec a q) as [[_ ->]|[_ ->]]; [right; exact I1|left; reflexivity].
      * lia.
      * intros x [<-|Hx] Lx; [lia|]. specialize (I3 x Hx Lx). lia.
    + injection H as <-. split; [left; reflexivity|]. split; [exact L|].
      intros x [<-|Hx] Lx; [lia|]. pose proof (max_neg_none l E x Hx). lia.
  - destruct (IH p H) as (I1 & I2 & I3). split; [right; exact I1|]. split; [exact I2|].
    intros x [<-|Hx] Lx; [lia|exact (I3 x Hx Lx)].
Qed.

(** two frames on both sides of step 0, one of them at an end of the list: the pre-step frame
    has a successor *)
Lemma count_two (p b : Z) (L : list Z) (q : Z) : p <= b -> In q L -> p <= q ->
  (2 <= length (filter (fun x => (p <=? x)%Z) (b :: L)))%nat /\
  (2 <= length (filter (fun x => (p <=? x)%Z) (L ++ [b])))%nat.
Proof.
  intros Hb Hq Lq.
  assert (1 <= length (filter (fun x => (p <=? x)%Z) L))%nat as H1.
  { assert (In q (filter (fun x => p <=? x) L)) as Hi by (apply filter_In; split; [exact Hq|apply Z.leb_le; exact Lq]).
    destruct (filter (fun x => p <=? x) L); [destruct Hi|cbn [length]; lia]. }
  assert (p <=? b = true) as Eb by (apply Z.leb_le; exact Hb).
  split.
  - cbn [filter]. rewrite Eb. cbn [length]. lia.
  - rewrite filter_app, app_length. cbn [filter]. rewrite Eb. cbn [length]. lia.
Qed.
Lemma prestep_ok_suff steps a b L :
  steps = b :: L \/ steps = L ++ [b] -> In a L -> a <= 0 -> 0 <= b -> prestep_ok (sort steps) = true.
Proof.
  intros Shape Ha La Lb.
  assert (In a steps /\ In b steps) as [Ia Ib].
  { destruct Shape as [->| ->]; split; try (right; exact Ha); try (left; reflexivity);
      apply in_or_app; [left; exact Ha|right; left; reflexivity]. }
  assert (forall p q : Z, p <= b -> In q L -> p <= q ->
          (2 <= length (filter (fun x => (p <=? x)%Z) (sort steps)))%nat) as Cnt.
  { intros p q H1 H2 H3. rewrite sort_filter_length.
    destruct (count_two p b L q H1 H2 H3) as [C1 C2]. destruct Shape as [->| ->]; assumption. }
  unfold prestep_ok, prestep.
  assert (forall p : Z, In p (sort steps) -> (2 <= length (filter (fun x => (p <=? x)%Z) (sort steps)))%nat ->
          match index_of p (sort steps) with Some i => Nat.ltb (S i) (length (sort steps)) | None => false end = true) as Fin.
  { intros p Hp C. rewrite (index_of_sorted p _ (sort_sorted steps) Hp).
    apply Nat.ltb_lt. pose proof (filter_split_length p (sort steps)). lia. }
  destruct (max_neg (sort steps)) as [p|] eqn:E.
  - destruct (max_neg_some _ _ E) as (Hp & Np & Mx). apply Fin; [exact Hp|].
    pose proof (proj1 (sort_In _ _) Hp) as Hp'.
    assert (In p L) as HpL.
    { destruct Shape as [->| ->].
      - destruct Hp' as [Eq|Hp']; [lia|exact Hp'].
      - apply in_app_or in Hp'. destruct Hp' as [Hp'|[Eq|[]]]; [exact Hp'|lia]. }
    apply (Cnt p p); [lia|exact HpL|lia].
  - pose proof (max_neg_none _ E) as Nn.
    assert (a = 0) as ->. { specialize (Nn a (proj2 (sort_In steps a) Ia)). lia. }
    apply Fin; [apply (proj2 (sort_In _ _)); exact Ia|]. apply (Cnt 0 0); [lia|exact Ha|lia].
Qed.

(** * B. the forcing stage *)
Lemma last_cons_ne (x d : Z) r : r <> [] -> last (x :: r) d = last r d.
Proof. destruct r; [congruence|reflexivity]. Qed.
Lemma last_default_irrelevant (r : list Z) d d' : r <> [] -> last r d = last r d'.
Proof.
  induction r as [|a r IH]; [congruence|]. intros _. destruct r as [|b r]; [reflexivity|].
  change (last (b :: r) d = last (b :: r) d'). apply IH. discriminate.
Qed.
Lemma frames_ends (f0 : Z) (r : list Z) (f1 : Z) : last (f0 :: r) f0 = f1 -> f0 <> f1 ->
  exists m, f0 :: r = f0 :: m ++ [f1].
Proof.
  intros E N. assert (r <> []) as Nr by (intros ->; cbn in E; congruence).
  exists (removelast r). f_equal. rewrite last_cons_ne in E by exact Nr.
  rewrite <- E. apply app_removelast_last. exact Nr.
Qed.

Lemma prestep_frames t frames :
  0 < dt t -> (if rev t then stop t < start t else start t < stop t) ->
  covers t frames = true -> prestep_ok (sort (map (time2step t) frames)) = true.
Proof.
  intros Hd Dir Cov. unfold covers in Cov. destruct frames as [|f0 r]; [discriminate|].
  apply andb_true_iff in Cov. destruct Cov as [C0 C1]. apply Z.leb_le in C0, C1.
  set (f1 := last (f0 :: r) f0) in *.
  assert (f0 <> f1) as N by (destruct (rev t); lia).
  destruct (frames_ends f0 r f1 eq_refl N) as [m ->].
  change (f0 :: m ++ [f1]) with ((f0 :: m) ++ [f1]). rewrite map_app. cbn [map].
  unfold time2step. destruct (rev t).
  - (* reversed: the first frame is at or beyond the stop time (step >= 0), the last at or after the start *)
    apply (prestep_ok_suff _ ((start t - f1) / dt t) ((start t - f0) / dt t)
             (map (fun x => (start t - x) / dt t) m ++ [(start t - f1) / dt t])).
    + left. reflexivity.
    + apply in_or_app. right. left. reflexivity.
    + assert (start t - f1 <= 0) by lia.
      destruct (Z.eq_dec (start t - f1) 0) as [->|Nz]; [rewrite Z.div_0_l by lia; lia|].
      assert ((start t - f1) / dt t < 0) by (apply Z.div_lt_upper_bound; lia). lia.
    + apply Z.div_pos; lia.
  - apply (prestep_ok_suff _ ((f0 - start t) / dt t) ((f1 - start t) / dt t)
             (((f0 - start t) / dt t) :: map (fun x => (x - start t) / dt t) m)).
    + right. reflexivity.
    + left. reflexivity.
    + assert (f0 - start t <= 0) by lia.
      destruct (Z.eq_dec (f0 - start t) 0) as [->|Nz]; [rewrite Z.div_0_l by lia; lia|].
      assert ((f0 - start t) / dt t < 0) by (apply Z.div_lt_upper_bound; lia). lia.
    + apply Z.div_pos; lia.
Qed.

(** what an accepted forcing satisfies *)
Lemma forcing_stage_some s t st : forcing_stage s t = Some st ->
  sec_forcing s = SecPresent /\ forcing_filename s = true /\ forcing_files s <> [] /\
  strictly_increasing (forcing_frames s) = true /\ covers t (forcing_frames s) = true.
Proof.
  unfold forcing_stage. destruct (sec_forcing s); try discriminate.
  destruct (forcing_filename s); [|discriminate]. cbn [negb].
  destruct (forcing_files s) as [|f fs] eqn:Ef; [discriminate|]. fold (forcing_frames s).
  destruct (strictly_increasing (forcing_frames s)); [|discriminate]. cbn [negb].
  unfold covers. destruct (forcing_frames s) as [|f0 r] eqn:E; [discriminate|].
  destruct (Z.ltb_spec (Z.min (start t) (stop t)) f0) as [L|L]; [discriminate|].
  destruct (Z.ltb_spec (last (f0 :: r) f0) (Z.max (start t) (stop t))) as [L2|L2]; [discriminate|].
  intros _. repeat split; try reflexivity; try discriminate.
  apply andb_true_iff. split; apply Z.leb_le; assumption.
Qed.
Lemma forcing_stage_ok s t :
  0 < dt t -> (if rev t then stop t < start t else start t < stop t) ->
  sec_forcing s = SecPresent -> forcing_filename s = true -> forcing_files s <> [] ->
  strictly_increasing (forcing_frames s) = true -> covers t (forcing_frames s) = true ->
  forcing_stage s t <> None.
Proof.
  intros Hd Dir Sp Fn Nf Si Cov. unfold forcing_stage. rewrite Sp, Fn. cbn [negb].
  destruct (forcing_files s) as [|f fs] eqn:Ef; [congruence|]. fold (forcing_frames s).
  rewrite Si. cbn [negb]. pose proof (prestep_frames t _ Hd Dir Cov) as P.
  unfold covers in Cov. destruct (forcing_frames s) as [|f0 r] eqn:E; [discriminate|].
  apply andb_true_iff in Cov. destruct Cov as [C0 C1]. apply Z.leb_le in C0, C1.
  assert (Z.min (start t) (stop t) <? f0 = false) as -> by (apply Z.ltb_ge; exact C0).
  assert (last (f0 :: r) f0 <? Z.max (start t) (stop t) = false) as -> by (apply Z.ltb_ge; exact C1).
  rewrite P. discriminate.
Qed.

(** * C. the release stage: refused exactly when no release instant lies in the window *)
Lemma lookup_group_nonempty tab x g : lookup_group tab x = Some g -> g <> [].
Proof. unfold lookup_group. destruct (rows_at x tab); [discriminate|]. intro H. injection H as <-. discriminate. Qed.
Lemma join_ffill_rt tab : forall ticks last r, In r (join_ffill tab last ticks) -> In (rt r) ticks.
Proof.
  induction ticks as [|x ticks IH]; intros last r H; [destruct H|]. cbn [join_ffill] in H.
  apply in_app_or in H. destruct H as [H|H]; [|right; exact (IH _ _ H)].
  left. destruct (match lookup_group tab x with Some g => Some g | None => last end); [|destruct H].
  apply in_map_iff in H. destruct H as (u & <- & _). reflexivity.
Qed.
Lemma join_ffill_hit tab : forall ticks last,
  match last with
  | Some g => g <> []
  | None => match ticks with [] => True | x :: _ => lookup_group tab x <> None end
  end ->
  forall x, In x ticks -> exists r, In r (join_ffill tab last ticks) /\ rt r = x.
Proof.
  induction ticks as [|y ticks IH]; intros last Hl x Hx; [destruct Hx|]. cbn [join_ffill].
  assert (exists g, (match lookup_group tab y with Some g => Some g | None => last end) = Some g /\ g <> [])
    as (g & Eg & Ng).
  { destruct (lookup_group tab y) as [g|] eqn:E.
    - exists g. split; [reflexivity|exact (lookup_group_nonempty _ _ _ E)].
    - destruct last as [g|]; [exists g; split; [reflexivity|exact Hl]|exfalso; apply Hl; reflexivity]. }
  rewrite Eg. destruct Hx as [<-|Hx].
  - destruct g as [|u g]; [congruence|]. exists (retime y u). split; [left; reflexivity|reflexivity].
  - destruct (IH (Some g) Ng x Hx) as (r & Hr & Er). exists r. split; [apply in_or_app; right; exact Hr|exact Er].
Qed.
Lemma filter_time_nil p tab : filter_time p tab = [] <-> forall r, In r tab -> p (rt r) = false.
Proof.
  unfold filter_time. split.
  - intros E r Hr. destruct (p (rt r)) eqn:Pr; [|reflexivity].
    assert (In r (filter (fun r => p (rt r)) tab)) as Hi by (apply filter_In; split; assumption).
    rewrite E in Hi. destruct Hi.
  - intro H. apply filter_nil_all. exact H.
Qed.
Lemma arange_aux_head n x s : match arange_aux n x s with [] => True | y :: _ => y = x end.
Proof. destruct n; cbn; trivial. Qed.
Lemma arange_head a b s : match arange a b s with [] => True | y :: _ => y = a end.
Proof. unfold arange. destruct (0 <? s); [apply arange_aux_head|]. destruct (s <? 0); [apply arange_aux_head|exact I]. Qed.

Lemma discretize_refusal t f r0 d1 p :
  filter_time p (discretize t f (r0 :: d1)) = [] <->
  forall x, In x (arange (rt r0) (stop t) (if rev t then - f else f)) -> p x = false.
Proof.
  unfold discretize. set (ticks := arange (rt r0) (stop t) (if rev t then - f else f)).
  rewrite filter_time_nil. split.
  - intros H x Hx.
    assert (match ticks with [] => True | y :: _ => lookup_group (r0 :: d1) y <> None end) as Hd.
    { pose proof (arange_head (rt r0) (stop t) (if rev t then - f else f)) as Hh. fold ticks in Hh.
      destruct ticks as [|y ticks']; [exact I|]. subst y.
      rewrite lookup_some; [discriminate|left; reflexivity]. }
    destruct (join_ffill_hit (r0 :: d1) ticks None Hd x Hx) as (r & Hr & <-). exact (H r Hr).
  - intros H r Hr. apply H. exact (join_ffill_rt _ _ _ _ Hr).
Qed.

Lemma arange_nonpos t x0 f : before_stop t x0 = true -> f <= 0 ->
  arange x0 (stop t) (if rev t then - f else f) = [].
Proof.
  intros B Hf. unfold arange, before_stop in *. destruct (rev t).
  - apply Z.ltb_lt in B. destruct (Z.ltb_spec 0 (- f)) as [L|L].
    + assert (cdiv (stop t - x0) (- f) <= 0) as C.
      { pose proof (cdiv_spec (stop t - x0) (- f) L). nia. }
      replace (Z.to_nat (cdiv (stop t - x0) (- f))) with O by lia. reflexivity.
    + destruct (Z.ltb_spec (- f) 0); [lia|reflexivity].
  - apply Z.ltb_lt in B. destruct (Z.ltb_spec 0 f) as [L|L]; [lia|].
    destruct (Z.ltb_spec f 0) as [L2|L2]; [|reflexivity].
    assert (cdiv (x0 - stop t) (- f) <= 0) as C.
    { assert (0 < - f) as Lf by lia. pose proof (cdiv_spec (x0 - stop t) (- f) Lf). nia. }
    replace (Z.to_nat (cdiv (x0 - stop t) (- f))) with O by lia. reflexivity.
Qed.
Lemma ticks_before_stop t x0 f x : before_stop t x0 = true ->
  In x (arange x0 (stop t) (if rev t then - f else f)) -> before_stop t x = true.
Proof.
  intros B Hx. destruct (Z.lt_ge_cases 0 f) as [L|L].
  - apply (ticks_In t f x0 x L) in Hx. unfold is_tick in Hx. apply andb_true_iff in Hx. tauto.
  - rewrite (arange_nonpos t x0 f B) in Hx by lia. destruct Hx.
Qed.

Lemma existsb_false_iff {A} (p : A -> bool) l : existsb p l = false <-> forall x, In x l -> p x = false.
Proof.
  induction l as [|a l IH]; cbn [existsb In]; [intuition|]. rewrite orb_false_iff, IH.
  split; [intros [H1 H2] x [<-|Hx]; auto|intro H; split; [apply H; left; reflexivity|intros x Hx; apply H; right; exact Hx]].
Qed.
Lemma release_table_rt times : map rt (map mkrow times) = times.
Proof. rewrite map_map. cbn [rt mkrow]. apply map_id. Qed.

Definition rel_ok (t : tk) (cont : option Z) (times : list Z) : bool :=
  match rel_init t cont false (map mkrow times) with RelExit => false | RelOk _ _ _ => true end.

Lemma rel_ok_iff t cont times :
  rel_ok t cont times = existsb (in_window t) (release_instants t cont times).
Proof.
  apply eq_true_iff_eq. unfold rel_ok. destruct cont as [f|].
  - (* continuous *)
    cbn [release_instants]. unfold rel_init.
    rewrite <- (release_table_rt times) at 2. rewrite <- filter_time_rt.
    destruct (filter_time (before_stop t) (map mkrow times)) as [|r0 d1] eqn:E1; [cbn; split; discriminate|].
    cbn [map].
    assert (before_stop t (rt r0) = true) as B0.
    { assert (In r0 (filter_time (before_stop t) (map mkrow times))) as Hi by (rewrite E1; left; reflexivity).
      unfold filter_time in Hi. apply filter_In in Hi. tauto. }
    destruct (filter_time (from_start t) (discretize t f (r0 :: d1))) as [|u d3] eqn:E3.
    + split; [discriminate|]. intro H. exfalso.
      apply existsb_exists in H. destruct H as (x & Hx & Wx).
      pose proof (proj1 (discretize_refusal t f r0 d1 (from_start t)) E3 x Hx) as Fx.
      rewrite <- window_bools in Wx. rewrite Fx, andb_false_r in Wx. discriminate.
    + split; [intros _|reflexivity].
      destruct (existsb (in_window t) (arange (rt r0) (stop t) (if rev t then - f else f))) eqn:Ex; [reflexivity|].
      exfalso. rewrite existsb_false_iff in Ex.
      assert (filter_time (from_start t) (discretize t f (r0 :: d1)) = []) as E0; [|rewrite E0 in E3; discriminate].
      apply discretize_refusal. intros x Hx. specialize (Ex x Hx). rewrite <- window_bools in Ex.
      rewrite (ticks_before_stop t (rt r0) f x B0 Hx) in Ex. exact Ex.
  - (* discrete *)
    cbn [release_instants].
    destruct (rel_init t None false (map mkrow times)) eqn:E.
    + apply refusal_cold in E. split; [discriminate|]. intro H. exfalso.
      apply existsb_exists in H. destruct H as (x & Hx & Wx).
      rewrite filter_time_nil in E. rewrite <- (release_table_rt times) in Hx.
      apply in_map_iff in Hx. destruct Hx as (r & <- & Hr). rewrite (E r Hr) in Wx. discriminate.
    + split; [intros _|reflexivity].
      destruct (existsb (in_window t) times) eqn:Ex; [reflexivity|]. exfalso.
      assert (rel_init t None false (map mkrow times) = RelExit) as E0; [|rewrite E0 in E; discriminate].
      apply refusal_cold. apply filter_time_nil. intros r Hr. rewrite existsb_false_iff in Ex.
      apply Ex. rewrite <- (release_table_rt times). apply in_map. exact Hr.
Qed.

(** an instant in the window puts stop on the right side of start *)
Lemma window_direction t x : in_window t x = true ->
  if rev t then stop t < start t else start t < stop t.
Proof.
  unfold in_window. destruct (rev t); intro H; apply andb_true_iff in H; destruct H as [H1 H2].
  - apply Z.ltb_lt in H1. apply Z.leb_le in H2. lia.
  - apply Z.leb_le in H1. apply Z.ltb_lt in H2. lia.
Qed.

(** * D. the time stage *)
Lemma time_stage_some s t : time_stage s = Some t ->
  sec_time s = SecPresent /\ the_tk s = Some t /\ t_dt s <> 0 /\
  exists a b, t_start s = Some a /\ t_stop s = Some b /\ (t_rev s = true <-> b < a) /\
              start t = a /\ stop t = b /\ dt t = t_dt s /\ rev t = t_rev s.
Proof.
  unfold time_stage, the_tk. destruct (sec_time s); try discriminate.
  destruct (t_start s) as [a|], (t_stop s) as [b|]; try (cbn; discriminate).
  destruct (tk_init (Some a) (Some b) (t_dt s) (t_ref s) (t_rev s)) as [t'|] eqn:E; [|discriminate].
  intro H. injection H as ->. pose proof (tk_init_ok _ _ _ _ _ _ E) as (D & R & S1 & S2 & S3 & S4).
  split; [reflexivity|]. split.
  - unfold tk_init in E. destruct (t_dt s =? 0); [discriminate|].
    destruct (negb (Bool.eqb (t_rev s) (b - a <? 0))); [discriminate|]. injection E as <-. reflexivity.
  - split; [exact D|]. exists a, b. repeat split; try assumption; apply R.
Qed.
Lemma time_stage_ok s a b :
  sec_time s = SecPresent -> t_start s = Some a -> t_stop s = Some b -> t_dt s <> 0 ->
  Bool.eqb (t_rev s) (b - a <? 0) = true -> time_stage s <> None.
Proof.
  intros Sp Ea Eb D R. unfold time_stage, tk_init. rewrite Sp, Ea, Eb.
  assert (t_dt s =? 0 = false) as -> by (apply Z.eqb_neq; exact D). rewrite R. cbn [negb]. discriminate.
Qed.

(** * E. the construction order *)
Lemma startup_env_cases s :
  startup_env s =
  if configure s then
    match time_stage s with
    | None => (Refused StTime, snd (startup_env s))
    | Some t =>
        match grid_stage s with
        | None => (Refused StGrid, snd (startup_env s))
        | Some g =>
            match forcing_stage s t with
            | None => (Refused StForcing, snd (startup_env s))
            | Some st =>
                if release_stage s t then
                  match output_stage s t with
                  | None => (Refused StOutput, snd (startup_env s))
                  | Some p => (Started, snd (startup_env s))
                  end
                else (Refused StRelease, snd (startup_env s))
            end
        end
    end
  else (Refused StConfig, env0).
Proof.
  unfold startup_env. destruct (configure s); [|reflexivity].
  unfold module_names. cbn [build construct env0 e_state e_time e_grid e_forcing e_release e_tracker e_ibm e_output].
  destruct (time_stage s) as [t|]; [|reflexivity].
  cbn [build construct e_state e_time e_grid e_forcing e_release e_tracker e_ibm e_output].
  destruct (grid_stage s) as [g|]; [|reflexivity].
  cbn [build construct e_state e_time e_grid e_forcing e_release e_tracker e_ibm e_output].
  destruct (forcing_stage s t) as [st|]; [|reflexivity].
  cbn [build construct e_state e_time e_grid e_forcing e_release e_tracker e_ibm e_output].
  destruct (release_stage s t); [|reflexivity].
  cbn [build construct e_state e_time e_grid e_forcing e_release e_tracker e_ibm e_output].
  destruct (output_stage s t) as [p|]; reflexivity.
Qed.

Lemma started_iff s :
  startup s = Started <->
  configure s = true /\
  exists t, time_stage s = Some t /\ grid_stage s <> None /\ forcing_stage s t <> None /\
            release_stage s t = true /\ output_stage s t <> None.
Proof.
  unfold startup. rewrite startup_env_cases. destruct (configure s); [|cbn; split; [discriminate|intros [H _]; discriminate]].
  destruct (time_stage s) as [t|].
  2:{ cbn. split; [discriminate|intros [_ (t & H & _)]; discriminate]. }
  destruct (grid_stage s) as [g|].
  2:{ cbn. split; [discriminate|intros [_ (t' & _ & H & _)]; congruence]. }
  destruct (forcing_stage s t) as [st|] eqn:Ef.
  2:{ cbn. split; [discriminate|intros [_ (t' & Et & _ & H & _)]]. injection Et as <-. congruence. }
  destruct (release_stage s t) eqn:Er.
  2:{ cbn. split; [discriminate|intros [_ (t' & Et & _ & _ & H & _)]]. injection Et as <-. congruence. }
  destruct (output_stage s t) as [p|] eqn:Eo.
  2:{ cbn. split; [discriminate|intros [_ (t' & Et & _ & _ & _ & H)]]. injection Et as <-. congruence. }
  cbn. split; [intros _|reflexivity]. split; [reflexivity|]. exists t.
  repeat split; try reflexivity; try discriminate; try assumption; rewrite ?Ef, ?Eo; discriminate.
Qed.

(** the stage of a refusal, read off the first failing step *)
Lemma refused_stage s st : startup s = Refused st ->
  match st with
  | StConfig => configure s = false
  | StTime => configure s = true /\ time_stage s = None
  | StGrid => configure s = true /\ time_stage s <> None /\ grid_stage s = None
  | StForcing => exists t, configure s = true /\ time_stage s = Some t /\ grid_stage s <> None /\
                           forcing_stage s t = None
  | StRelease => exists t, configure s = true /\ time_stage s = Some t /\ grid_stage s <> None /\
                           forcing_stage s t <> None /\ release_stage s t = false
  | StOutput => exists t, configure s = true /\ time_stage s = Some t /\ grid_stage s <> None /\
                          forcing_stage s t <> None /\ release_stage s t = true /\ output_stage s t = None
  | StState | StTracker | StIbm => False
  end.
Proof.
  unfold startup. rewrite startup_env_cases. destruct (configure s); [|cbn; intro H; injection H as <-; reflexivity].
  destruct (time_stage s) as [t|]; [|cbn; intro H; injection H as <-; split; reflexivity].
  destruct (grid_stage s) as [g|]; [|cbn; intro H; injection H as <-; repeat split; discriminate].
  destruct (forcing_stage s t) as [f|] eqn:Ef.
  2:{ cbn. intro H. injection H as <-. exists t. repeat split; try discriminate; exact Ef. }
  destruct (release_stage s t) eqn:Er.
  2:{ cbn. intro H. injection H as <-. exists t. rewrite Ef. repeat split; try discriminate; exact Er. }
  destruct (output_stage s t) as [p|] eqn:Eo; [cbn; discriminate|].
  cbn. intro H. injection H as <-. exists t. rewrite Ef. repeat split; try discriminate; assumption.
Qed.

(** T3: whatever refuses, the output module is not in the modules dictionary *)
Lemma refused_env_no_output s st e : startup_env s = (Refused st, e) -> e_output e = None.
Proof.
  unfold startup_env. destruct (configure s); [|intro H; injection H as _ <-; reflexivity].
  unfold module_names. cbn [build construct env0 e_state e_time e_grid e_forcing e_release e_tracker e_ibm e_output].
  destruct (time_stage s) as [t|]; [|intro H; injection H as _ <-; reflexivity].
  cbn [build construct e_state e_time e_grid e_forcing e_release e_tracker e_ibm e_output].
  destruct (grid_stage s) as [g|]; [|intro H; injection H as _ <-; reflexivity].
  cbn [build construct e_state e_time e_grid e_forcing e_release e_tracker e_ibm e_output].
  destruct (forcing_stage s t) as [f|]; [|intro H; injection H as _ <-; reflexivity].
  cbn [build construct e_state e_time e_grid e_forcing e_release e_tracker e_ibm e_output].
  destruct (release_stage s t); [|intro H; injection H as _ <-; reflexivity].
  cbn [build construct e_state e_time e_grid e_forcing e_release e_tracker e_ibm e_output].
  destruct (output_stage s t) as [p|]; [discriminate|intro H; injection H as _ <-; reflexivity].
Qed.
Lemma no_output_no_record e steps : e_output e = None -> zsum (map (output_update e) steps) = 0.
Proof.
  intro H. induction steps as [|k steps IH]; [reflexivity|]. cbn [map zsum]. rewrite IH.
  unfold output_update. rewrite H. reflexivity.
Qed.
Lemma refused_no_record s st : startup s = Refused st ->
  e_output (snd (startup_env s)) = None /\ r_outcome (main_run s) = Refused st /\
  r_updates (main_run s) = 0 /\ r_records (main_run s) = 0.
Proof.
  unfold startup, main_run. destruct (startup_env s) as [o e] eqn:E. cbn [fst snd]. intros ->.
  cbn [loop_steps r_outcome r_updates r_records length map zsum]. split; [|repeat split].
  exact (refused_env_no_output s st e E).
Qed.
Lemma refused_before_output s st :
  sec_output s = SecPresent -> out_filename s = true -> out_ivars s = true -> out_period s <> None ->
  startup s = Refused st -> st <> StOutput.
Proof.
  intros Sp Fn Iv Pe H ->. apply refused_stage in H. destruct H as (t & _ & _ & _ & _ & _ & Eo).
  unfold output_stage in Eo. rewrite Sp, Fn, Iv in Eo. cbn [andb] in Eo.
  destruct (out_period s); [discriminate|congruence].
Qed.
(** the refusal is total: a set-up is either started or refused in one of six places *)
Lemma refused_stage_range s st : startup s = Refused st ->
  st = StConfig \/ st = StTime \/ st = StGrid \/ st = StForcing \/ st = StRelease \/ st = StOutput.
Proof. intro H. apply refused_stage in H. destruct st; tauto. Qed.

(** * F. T1: a started set-up has none of the faults *)
Lemma configure_true s : configure s = true ->
  cf s = CfOk /\ given (sec_tracker s) = true /\ given (sec_time s) = true /\
  given (sec_release s) = true /\ given (sec_output s) = true.
Proof.
  unfold configure. destruct (cf s); try discriminate. intro H.
  repeat (apply andb_true_iff in H; destruct H as [H ?]). repeat split; assumption.
Qed.
Lemma release_stage_true s t : release_stage s t = true ->
  sec_release s = SecPresent /\ rel_key s = true /\ rel_name_empty s = false /\ rel_file s = true /\
  rel_poscols s = true /\ rel_rowpos s = true /\ rel_ok t (rel_cont s) (rel_times s) = true.
Proof.
  unfold release_stage, rel_ok, release_table. destruct (sec_release s); try discriminate. intro H.
  apply andb_true_iff in H. destruct H as [H A6]. apply andb_true_iff in H. destruct H as [H A5].
  apply andb_true_iff in H. destruct H as [H A4]. apply andb_true_iff in H. destruct H as [H A3].
  apply andb_true_iff in H. destruct H as [A1 A2]. apply negb_true_iff in A2.
  repeat split; assumption.
Qed.
Lemma grid_stage_some s : grid_stage s <> None ->
  grid_file_found s = true /\ limits_ok (imax0 s) (jmax0 s) (grid_limits s) = true.
Proof.
  unfold grid_stage. destruct (grid_file_found s); [|congruence].
  destruct (limits_ok (imax0 s) (jmax0 s) (grid_limits s)); [split; reflexivity|congruence].
Qed.
Lemma output_stage_some s t : output_stage s t <> None -> sec_output s = SecPresent.
Proof. unfold output_stage. destruct (sec_output s); congruence. Qed.

Lemma started_no_fault s : startup s = Started -> any_fault s = false.
Proof.
  intro H. apply started_iff in H. destruct H as (Cf & t & Et & Eg & Ef & Er & Eo).
  apply configure_true in Cf. destruct Cf as (C1 & C2 & C3 & C4 & C5).
  apply time_stage_some in Et. destruct Et as (T1 & T2 & T3 & a & b & Ea & Eb & Dir & Sa & Sb & Sd & Sr).
  apply grid_stage_some in Eg. destruct Eg as (G1 & G2).
  destruct (forcing_stage s t) as [stp|] eqn:Ef'; [|congruence].
  apply forcing_stage_some in Ef'. destruct Ef' as (F1 & F2 & F3 & F4 & F5).
  apply release_stage_true in Er. destruct Er as (R1 & R2 & R3 & R4 & R5 & R6 & R7).
  apply output_stage_some in Eo.
  unfold any_fault. rewrite !orb_false_iff. repeat match goal with |- _ /\ _ => split end.
  - (* coverage *)
    unfold fault_coverage, window. rewrite Ea, Eb. unfold covers in F5. rewrite Sa, Sb in F5.
    destruct (forcing_frames s) as [|f0 r]; [discriminate|].
    apply andb_true_iff in F5. destruct F5 as [A B]. apply Z.leb_le in A, B.
    apply orb_false_iff. split; apply Z.ltb_ge; assumption.
  - unfold fault_frame_order. rewrite F4. reflexivity.
  - unfold fault_missing_time. rewrite Ea, Eb. apply Z.eqb_neq. exact T3.
  - unfold fault_direction. rewrite Ea, Eb. apply negb_false_iff. apply Bool.eqb_true_iff.
    destruct (t_rev s) eqn:Rv.
    + symmetry. apply Z.ltb_lt. assert (b < a) by (apply Dir; reflexivity). lia.
    + symmetry. apply Z.ltb_ge. destruct (Z.lt_ge_cases b a) as [L|L]; [apply Dir in L; discriminate|lia].
  - unfold fault_no_release. rewrite T2. rewrite <- rel_ok_iff, R7. reflexivity.
  - unfold fault_no_position. rewrite R5, R6. reflexivity.
  - unfold fault_missing_file. rewrite G1, R2, R3, R4. destruct (forcing_files s); [congruence|reflexivity].
  - unfold fault_missing_section. rewrite C2, C3, C4, C5, F1. reflexivity.
  - unfold fault_empty_section. rewrite T1, F1, R1, Eo. reflexivity.
  - unfold fault_subgrid. rewrite G2. reflexivity.
  - unfold fault_config_file. rewrite C1. reflexivity.
Qed.
Lemma fault_refused s : any_fault s = true -> exists st, startup s = Refused st.
Proof.
  intro H. destruct (startup s) as [|st] eqn:E; [|exists st; reflexivity].
  rewrite (started_no_fault s E) in H. discriminate.
Qed.

(** * G. T2: a well-formed set-up without any fault is started *)
Lemma no_fault_started s : any_fault s = false -> well_formed s = true -> startup s = Started.
Proof.
  unfold any_fault, well_formed. intros H W.
  rewrite !orb_false_iff in H.
  destruct H as [[[[[[[[[[Fcov Ffo] Fmt] Fdir] Fnr] Fnp] Fmf] Fms] Fes] Fsub] Fcf].
  rewrite !andb_true_iff in W. destruct W as [[[[[[Wdt Wffn] Wmod] Wfreq] Wofn] Wiv] Wper].
  (* sections *)
  unfold fault_empty_section in Fes. apply negb_false_iff in Fes. rewrite !andb_true_iff in Fes.
  destruct Fes as [[[E1 E2] E3] E4].
  assert (sec_time s = SecPresent) as St by (destruct (sec_time s); try discriminate; reflexivity).
  assert (sec_forcing s = SecPresent) as Sf by (destruct (sec_forcing s); try discriminate; reflexivity).
  assert (sec_release s = SecPresent) as Sr by (destruct (sec_release s); try discriminate; reflexivity).
  assert (sec_output s = SecPresent) as So by (destruct (sec_output s); try discriminate; reflexivity).
  unfold fault_missing_section in Fms. apply negb_false_iff in Fms. rewrite !andb_true_iff in Fms.
  destruct Fms as [[[[S1 S2] S3] S4] S5].
  (* time *)
  unfold fault_missing_time in Fmt. destruct (t_start s) as [a|] eqn:Ea; [|discriminate].
  destruct (t_stop s) as [b|] eqn:Eb; [|discriminate]. apply Z.eqb_neq in Fmt.
  unfold fault_direction in Fdir. rewrite Ea, Eb in Fdir. apply negb_false_iff in Fdir.
  pose proof (time_stage_ok s a b St Ea Eb Fmt Fdir) as Tn.
  destruct (time_stage s) as [t|] eqn:Et; [|congruence].
  destruct (time_stage_some s t Et) as (_ & Tk & _ & a' & b' & Ea' & Eb' & Dir & Sa & Sb & Sd & Srv).
  rewrite Ea in Ea'. rewrite Eb in Eb'. injection Ea' as <-. injection Eb' as <-.
  (* release *)
  unfold fault_no_release in Fnr. rewrite Tk in Fnr. apply negb_false_iff in Fnr.
  assert (if rev t then stop t < start t else start t < stop t) as Wd.
  { apply existsb_exists in Fnr. destruct Fnr as (x & _ & Wx). exact (window_direction t x Wx). }
  unfold fault_no_position in Fnp. apply orb_false_iff in Fnp. destruct Fnp as [Np1 Np2].
  apply negb_false_iff in Np1, Np2.
  unfold fault_missing_file in Fmf. rewrite !orb_false_iff in Fmf.
  destruct Fmf as [[[[M1 M2] M3] M4] M5].
  apply negb_false_iff in M1, M3, M5.
  (* forcing *)
  assert (forcing_files s <> []) as Nf by (destruct (forcing_files s); [discriminate|discriminate]).
  unfold fault_frame_order in Ffo. apply negb_false_iff in Ffo.
  assert (covers t (forcing_frames s) = true) as Cov.
  { unfold fault_coverage, window in Fcov. rewrite Ea, Eb in Fcov. unfold covers. rewrite Sa, Sb.
    destruct (forcing_frames s) as [|f0 r]; [discriminate|].
    apply orb_false_iff in Fcov. destruct Fcov as [A B]. apply Z.ltb_ge in A, B.
    apply andb_true_iff. split; apply Z.leb_le; assumption. }
  assert (0 < dt t) as Hd by (rewrite Sd; apply Z.ltb_lt; exact Wdt).
  pose proof (forcing_stage_ok s t Hd Wd Sf Wffn Nf Ffo Cov) as Fok.
  (* assemble *)
  apply started_iff. split.
  - unfold configure. unfold fault_config_file in Fcf. destruct (cf s); try discriminate.
    rewrite S1, S3, S4, S5. unfold present. rewrite Sf, Wffn. cbn [andb].
    destruct (grid_module s); [destruct (grid_filename s); reflexivity|].
    cbn [orb] in Wmod. rewrite Wmod. destruct (grid_filename s); reflexivity.
  - exists t. split; [exact Et|]. split; [|split; [exact Fok|split]].
    + unfold grid_stage. rewrite M1. unfold fault_subgrid in Fsub. apply negb_false_iff in Fsub.
      rewrite Fsub. discriminate.
    + unfold release_stage. rewrite Sr, M3, M4, M5, Np1, Np2. cbn [negb andb].
      unfold release_table. fold (rel_ok t (rel_cont s) (rel_times s)).
      rewrite rel_ok_iff. exact Fnr.
    + unfold output_stage. rewrite So, Wofn, Wiv. cbn [andb]. destruct (out_period s); [discriminate|discriminate].
Qed.

(** the fault list as a disjunction *)
Lemma fault_list_refused s :
  fault_coverage s = true \/ fault_frame_order s = true \/ fault_missing_time s = true \/
  fault_direction s = true \/ fault_no_release s = true \/ fault_no_position s = true \/
  fault_missing_file s = true \/ fault_missing_section s = true \/ fault_empty_section s = true \/
  fault_subgrid s = true \/ fault_config_file s = true ->
  exists st, startup s = Refused st.
Proof. intro H. apply fault_refused. unfold any_fault. rewrite !orb_true_iff. tauto. Qed.

(** spelled-out readings of some fault predicates *)
Lemma fault_no_release_discrete s a b : t_start s = Some a -> t_stop s = Some b -> rel_cont s = None ->
  (fault_no_release s = true <->
   forall x, In x (rel_times s) -> ~ (if t_rev s then b < x <= a else a <= x < b)).
Proof.
  intros Ea Eb Ec. unfold fault_no_release, the_tk. rewrite Ea, Eb, Ec. cbn [release_instants].
  rewrite negb_true_iff, existsb_false_iff. unfold in_window. cbn [rev start stop].
  split; intros H x Hx; specialize (H x Hx).
  - destruct (t_rev s); apply andb_false_iff in H; destruct H as [H|H];
      try apply Z.ltb_ge in H; try apply Z.leb_gt in H; lia.
  - destruct (t_rev s); apply andb_false_iff.
    + destruct (Z.ltb_spec b x); [|left; reflexivity]. right. apply Z.leb_gt. lia.
    + destruct (Z.leb_spec a x); [|left; reflexivity]. right. apply Z.ltb_ge. lia.
Qed.
Lemma fault_subgrid_plain s i0 i1 j0 j1 : subgrid s = Some (i0, i1, j0, j1) ->
  0 <= i0 -> 0 <= i1 -> 0 <= j0 -> 0 <= j1 ->
  (fault_subgrid s = false <-> 1 <= i0 < i1 /\ i1 <= imax0 s - 1 /\ 1 <= j0 < j1 /\ j1 <= jmax0 s - 1).
Proof.
  intros E A B C D. unfold fault_subgrid, grid_limits, from_end. rewrite E.
  assert (i0 <? 0 = false) as -> by (apply Z.ltb_ge; lia). assert (i1 <? 0 = false) as -> by (apply Z.ltb_ge; lia).
  assert (j0 <? 0 = false) as -> by (apply Z.ltb_ge; lia). assert (j1 <? 0 = false) as -> by (apply Z.ltb_ge; lia).
  unfold limits_ok. rewrite negb_false_iff, !andb_true_iff, !Z.leb_le, !Z.ltb_lt. lia.
Qed.
Lemma fault_frame_order_spec l : strictly_increasing l = true <-> allpairs Z.lt l.
Proof.
  induction l as [|x l IH]; [cbn; tauto|]. cbn [strictly_increasing allpairs]. rewrite andb_true_iff, IH.
  split.
  - intros [H1 H2]. split; [|exact H2]. destruct l as [|y l]; [intros ? []|]. apply Z.ltb_lt in H1.
    destruct H2 as [H2 _]. intros z [<-|Hz]; [exact H1|]. specialize (H2 z Hz). lia.
  - intros [H1 H2]. split; [|exact H2]. destruct l as [|y l]; [reflexivity|]. apply Z.ltb_lt. apply H1. left. reflexivity.
Qed.
