(** Renumbering of steps in Model/Sim.v: a run whose environment at step n is another environment at step
    n + k is, up to the step labels of its records, the other run over the steps shifted by k.  This is how
    a restarted simulation — whose clock counts its steps from the restart time — is compared with the
    uninterrupted one. *)
From Coq Require Import ZArith List Bool Lia.
From Ladim Require Import Base.Num Model.Sim Proofs.SimProofs.
Import ListNotations.
Open Scope Z_scope.

Section Relabel.
  Variables V C : Type.
  Variable rel rel' : Z -> list (Z * V).
  Variable ff ff' : Z -> V -> V.
  Variable cf cf' : Z -> V -> C.
  Variable tf tf' : Z -> V -> C -> V * bool.
  Variable bf bf' : Z -> V -> V * bool.
  Variable du du' : Z -> bool.
  Variable k : Z.
  (** the steps on which the primed environment is the other one k steps later *)
  Variable ok : Z -> Prop.
  Variable okr : Z -> Prop.
  Hypothesis Hrel : forall n, okr n -> rel' n = rel (n + k).
  Hypothesis Hff : forall n v, ok n -> ff' n v = ff (n + k) v.
  Hypothesis Hcf : forall n v, ok n -> cf' n v = cf (n + k) v.
  Hypothesis Htf : forall n v c, ok n -> tf' n v c = tf (n + k) v c.
  Hypothesis Hbf : forall n v, ok n -> bf' n v = bf (n + k) v.
  Hypothesis Hdu : forall n, ok n -> du' n = du (n + k).

  Definition relabel_rec (r : rec V) : rec V := {| rstep := rstep r + k; rrows := rrows r |}.
  Definition relabel (s : sim V C) : sim V C :=
    {| parts := parts s; npid := npid s; cache := cache s; recs := map relabel_rec (recs s); crashed := crashed s |}.

  Lemma move_all_ext n ps : ok n -> forall cs,
    move_all V C tf' bf' n ps cs = move_all V C tf bf (n + k) ps cs.
  Proof.
    intro Hn. induction ps as [|p ps IH]; intros [|c cs]; cbn; try reflexivity.
    rewrite IH. destruct (move_all V C tf bf (n + k) ps cs); [|reflexivity].
    rewrite Htf by exact Hn. destruct (tf (n + k) (pval p) c) as [v1 a1]. rewrite Hbf by exact Hn. reflexivity.
  Qed.

  Lemma step_relabel do_out skip s n : ok n -> (skip = true \/ okr n) ->
    relabel (sim_step_gen V C rel' ff' cf' tf' bf' du' do_out skip s n) =
    sim_step_gen V C rel ff cf tf bf du do_out skip (relabel s) (n + k).
  Proof.
    intros Hn Hr. unfold sim_step_gen. cbn [relabel crashed parts npid recs].
    destruct (crashed s) eqn:Cr; [unfold relabel; cbn; rewrite Cr; reflexivity|].
    assert ((if skip then [] else rel' n) = (if skip then [] else rel (n + k))) as ER.
    { destruct skip; [reflexivity|]. destruct Hr as [Hr|Hr]; [discriminate|]. apply Hrel. exact Hr. }
    rewrite ER. set (new := if skip then [] else rel (n + k)).
    assert (map (fun p : part V => {| tag := tag p; ppid := ppid p; pval := ff' n (pval p); palive := palive p |})
                (compactify V (parts s) ++ mk_new V (npid s) new) =
            map (fun p : part V => {| tag := tag p; ppid := ppid p; pval := ff (n + k) (pval p); palive := palive p |})
                (compactify V (parts s) ++ mk_new V (npid s) new)) as E2.
    { apply map_ext. intro p. rewrite Hff by exact Hn. reflexivity. }
    rewrite E2. set (ps2 := map _ (compactify V (parts s) ++ mk_new V (npid s) new)).
    assert (map (fun p : part V => cf' n (pval p)) ps2 = map (fun p : part V => cf (n + k) (pval p)) ps2) as E3.
    { apply map_ext. intro p. apply Hcf. exact Hn. }
    rewrite E3. rewrite (Hdu n Hn).
    destruct (do_out && du (n + k)).
    - rewrite move_all_ext by exact Hn. destruct (move_all V C tf bf (n + k) (compactify V ps2) _);
        unfold relabel; cbn; rewrite map_app; reflexivity.
    - rewrite move_all_ext by exact Hn. destruct (move_all V C tf bf (n + k) ps2 _); unfold relabel; cbn; reflexivity.
  Qed.

  Lemma fold_relabel l : Forall (fun n => ok n /\ okr n) l -> forall s,
    relabel (fold_left (sim_step V C rel' ff' cf' tf' bf' du') l s) =
    fold_left (sim_step V C rel ff cf tf bf du) (map (fun n => n + k) l) (relabel s).
  Proof.
    induction 1 as [|n l [Hn Hr] F IH]; intro s; cbn; [reflexivity|].
    rewrite IH. unfold sim_step. rewrite step_relabel; [reflexivity|exact Hn|right; exact Hr].
  Qed.

  Lemma zrange_aux_shift n : forall a, map (fun x => x + k) (zrange_aux a n) = zrange_aux (a + k) n.
  Proof.
    induction n as [|n IH]; intro a; cbn; [reflexivity|]. rewrite IH. f_equal. f_equal. lia.
  Qed.
  Lemma zrange_shift a b : map (fun x => x + k) (zrange a b) = zrange (a + k) (b + k).
  Proof. unfold zrange. rewrite zrange_aux_shift. f_equal. f_equal. lia. Qed.

  Lemma restore_relabel r np : relabel (restore V C r np) = restore V C (relabel_rec r) np.
  Proof. reflexivity. Qed.

  (** the restarted run in its own numbering, relabelled, is the restarted run in the other numbering *)
  Theorem warm_run_relabel r np N : ok (rstep r) -> (forall n, rstep r < n < N -> ok n /\ okr n) ->
    relabel (warm_run V C rel' ff' cf' tf' bf' du' r np N) =
    warm_run V C rel ff cf tf bf du (relabel_rec r) np (N + k).
  Proof.
    intros H0 H. unfold warm_run. rewrite fold_relabel.
    - rewrite zrange_shift. cbn [relabel_rec rstep].
      rewrite step_relabel; [|exact H0|left; reflexivity]. rewrite restore_relabel.
      replace (rstep r + 1 + k) with (rstep r + k + 1) by lia. reflexivity.
    - apply Forall_forall. intros n Hn. apply H. unfold zrange in Hn.
      apply (in_zrange_aux V C rel ff cf tf bf du) in Hn. lia.
  Qed.
End Relabel.
