(** number of records a warm-started run writes *)
From Coq Require Import ZArith List Bool Lia.
From Ladim Require Import Base.Num Model.Output Proofs.OutputProofs.
Import ListNotations.
Open Scope Z_scope.

Lemma warm_record_count n p : 0 < n -> 0 < p ->
  Z.of_nat (length (filter (fun k => k mod p =? 0) (zrange 1 n))) = cdiv n p - 1.
Proof.
  intros Hn Hp. pose proof (due_length n p ltac:(lia) Hp) as D. unfold due in D.
  assert (zrange 0 n = 0 :: zrange 1 n) as E.
  { unfold zrange. replace (Z.to_nat (n - 0)) with (S (Z.to_nat (n - 1))) by lia. reflexivity. }
  rewrite E in D. cbn [filter] in D. rewrite Z.mod_0_l in D by lia. cbn [Z.eqb length] in D. lia.
Qed.
