(** Proofs/ProtocolWarmProofs.v — the call trace of a WARM run, executed call by call, is [Sim.warm_run] (C19/C08).

    Proofs/ProtocolProofs.v shows for COLD runs that executing [run_trace false N due hc] with the call
    semantics [Protocol.exec] gives [Sim.cold_run N].  This file proves the same link for warm starts.

    WHY AN EXTENSION [exec_w] IS NEEDED.  [Protocol.exec] cannot express a warm start:
      - [exec _ WarmStart] is the identity: the state is not restored from the restart record;
      - [exec _ ReleaseUpdate] always appends the rows [release_at n] of the current step, while the
        catch-up of Model.__init__ (warm_start; timer.step = 0; release.update(); force.update();
        tracker.update(); ibm.update()) must NOT release the rows of the restart time: they are already
        in the restart record (release.py: "With warm start skip release at start time (already accounted
        for)", the constructor of the release module drops the rows at start_time when it is given a
        warm_start_file).
    Model/Protocol.v is left untouched.  [exec_w] below runs on (warm flag, (timer.step, sim)):
      - [WarmStart] sets the flag, sets timer.step := init_step true = 0 (model.py: "self.timer.step = 0",
        an assignment and not a call, hence part of the WarmStart event) and replaces the particle state by
        [Sim.restore r np], r = the restart record and np = the particle counter read from the restart
        file (parameters of the section, they are data of the file and not of the state before the call);
      - every other call c is [Protocol.exec] itself, run with the release schedule [warm_sched w]:
        the schedule [release_at] when the flag is off, and [release_at] without the rows of step
        [init_step true] when it is on (this is literally what the release constructor does to its table).
    Hence [exec_w] and [exec] agree on every call other than WarmStart as long as the flag is off
    ([exec_w_cold], [fold_exec_w_cold]) and the cold theorem transfers ([run_trace_is_cold_run_w]).

    NUMBERING.  The trace counts steps from 0 = the restart step ([init_step true = 0], the loop runs
    steps 1 .. N-1); [Sim.warm_run r np N] counts from [rstep r].  [Sim.restore] does not look at
    [rstep r], so the link is stated for [rec0] = the record r relabelled to step 0
    ([run_trace_is_warm_run]; [run_trace_is_warm_run_0] when [rstep r = 0] already), and
    [run_trace_is_warm_run_abs] renumbers with Proofs/SimShiftProofs.v: if the environment of the
    restarted run at its step n is an absolute environment at step n + rstep r, the final state,
    relabelled, is [warm_run] of the absolute environment from r over N + rstep r steps.
    [warm_trace_continues_cold_run] composes this with C08 (Proofs/SimRestartProofs.v): stop a cold run
    after the record of step R, restart from that record, execute the warm trace call by call — the
    records are those the uninterrupted run writes after step R and the final particles coincide.

    No side condition on N is needed: for N <= 1 the loop is empty and the final clock is
    [Z.max 0 (N - 1)] = 0; for 1 <= N it is N - 1 ([run_trace_is_warm_run_clock]).  The only hypothesis
    is that the state before WarmStart is not crashed (a crashed state absorbs every call, as in [exec]). *)
From Coq Require Import ZArith List Bool Lia.
From Ladim Require Import Base.Num Model.Sim Model.Protocol Proofs.SimProofs Proofs.StateProofs
  Proofs.SimRestartProofs Proofs.SimShiftProofs Proofs.ProtocolProofs.
Import ListNotations.
Open Scope Z_scope.

(** the catch-up of Model.__init__ after warm_start *)
Definition catchup_calls : list call := [ReleaseUpdate; ForceUpdate; TrackerUpdate; IbmUpdate].
Lemma warm_branch_split : warm_branch = WarmStart :: catchup_calls.
Proof. reflexivity. Qed.

Section W.
  Variables V C : Type.
  Variable release_at : Z -> list (Z * V).
  Variable forcef : Z -> V -> V.
  Variable cachef : Z -> V -> C.
  Variable trackf : Z -> V -> C -> V * bool.
  Variable ibmf : Z -> V -> V * bool.
  Variable due : Z -> bool.
  (** content of the restart file: the record and the particle counter *)
  Variable r : rec V.
  Variable np : Z.

  Notation part := (part V).
  Notation sim := (sim V C).
  Notation wst := (bool * (Z * sim))%type.
  Notation exec_with rel := (exec V C rel forcef cachef trackf ibmf).
  Notation exec := (exec V C release_at forcef cachef trackf ibmf).
  Notation step_with rel := (sim_step V C rel forcef cachef trackf ibmf due).
  Notation step := (sim_step V C release_at forcef cachef trackf ibmf due).
  Notation step_gen_with rel := (sim_step_gen V C rel forcef cachef trackf ibmf due).
  Notation step_gen := (sim_step_gen V C release_at forcef cachef trackf ibmf due).
  Notation warm_run_with rel := (warm_run V C rel forcef cachef trackf ibmf due).
  Notation warm_run := (warm_run V C release_at forcef cachef trackf ibmf due).
  Notation cold_run := (cold_run V C release_at forcef cachef trackf ibmf due).
  Notation after_release := (after_release V C release_at forcef).
  Notation restore := (restore V C).
  Notation sim_init := (sim_init V C).

  (** * The extension *)
  (** the release table of a run: with the warm flag on, the rows of the restart step are dropped *)
  Definition warm_sched (w : bool) (m : Z) : list (Z * V) :=
    if w && (m =? init_step true) then [] else release_at m.
  (** the restart record in the numbering of the restarted run *)
  Definition rec0 : rec V := {| rstep := init_step true; rrows := rrows r |}.

  Definition exec_w (st : wst) (c : call) : wst :=
    let '(w, (n, s)) := st in
    match c with
    | WarmStart => if crashed s then st else (true, (init_step true, restore r np))
    | _ => (w, exec_with (warm_sched w) (n, s) c)
    end.

  (** ** [exec_w] is [exec] away from warm starts *)
  Lemma exec_w_cold n (s : sim) c : is_warm c = false ->
    exec_w (false, (n, s)) c = (false, exec (n, s) c).
  Proof. intro Hc. destruct c; try discriminate Hc; reflexivity. Qed.

  Lemma exec_w_sched w n (s : sim) c : is_warm c = false ->
    exec_w (w, (n, s)) c = (w, exec_with (warm_sched w) (n, s) c).
  Proof. intro Hc. destruct c; try discriminate Hc; reflexivity. Qed.

  Lemma exec_w_warmstart w n (s : sim) : crashed s = false ->
    exec_w (w, (n, s)) WarmStart = (true, (init_step true, restore r np)).
  Proof. intro H. cbn [exec_w]. rewrite H. reflexivity. Qed.

  Lemma fold_exec_w_sched l : none is_warm l -> forall w (st : Z * sim),
    fold_left exec_w l (w, st) = (w, fold_left (exec_with (warm_sched w)) l st).
  Proof.
    induction 1 as [|c l Hc _ IH]; intros w [n s]; [reflexivity|].
    cbn [fold_left]. rewrite exec_w_sched by exact Hc. apply IH.
  Qed.

  (** on every trace without a WarmStart, started with the flag off, [exec_w] is [exec] *)
  Lemma fold_exec_w_cold l : none is_warm l -> forall st : Z * sim,
    fold_left exec_w l (false, st) = (false, fold_left exec l st).
  Proof. intros Hl st. rewrite fold_exec_w_sched by exact Hl. reflexivity. Qed.

  Lemma none_warm_loop ks : forall n, none is_warm (loop_trace due ks n).
  Proof.
    induction ks as [|k ks IH]; intro n; [constructor|].
    cbn [loop_trace]. apply none_app; [|apply IH].
    unfold update_trace. destruct (0 <=? n + 1); repeat constructor.
  Qed.
  Lemma none_warm_finish hc : none is_warm (finish_trace hc).
  Proof. apply none_finish. reflexivity. Qed.
  Lemma none_warm_constructs : none is_warm (map Construct module_names).
  Proof. repeat constructor. Qed.

  Lemma none_warm_cold_trace N hc : none is_warm (run_trace false N due hc).
  Proof.
    unfold run_trace, init_trace. rewrite app_nil_r.
    apply none_app; [exact none_warm_constructs|].
    apply none_app; [apply none_warm_loop|apply none_warm_finish].
  Qed.

  (** the cold theorem of Proofs/ProtocolProofs.v transfers to [exec_w] *)
  Theorem run_trace_is_cold_run_w N hc : 0 <= N ->
    fold_left exec_w (run_trace false N due hc) (false, (step_after_construction, sim_init)) =
    (false, (N - 1, cold_run N)).
  Proof.
    intro HN. rewrite fold_exec_w_cold by apply none_warm_cold_trace.
    rewrite run_trace_is_cold_run by exact HN. reflexivity.
  Qed.

  (** * The catch-up is the step of Model/Sim.v without release and without output *)
  Lemma restore_alive r' np' : Forall (fun p : part => palive p = true) (parts (restore r' np')).
  Proof.
    unfold Sim.restore. cbn [parts]. apply Forall_forall. intros p Hp.
    apply in_map_iff in Hp as ([[pid t] v] & <- & _). reflexivity.
  Qed.

  Lemma catchup_is_step_gen (rel : Z -> list (Z * V)) n (s : sim) :
    crashed s = false -> rel n = [] -> Forall (fun p : part => palive p = true) (parts s) ->
    fold_left (exec_with rel) catchup_calls (n, s) = (n, step_gen false true s n).
  Proof.
    intros H R AL. rewrite step_spec by exact H. unfold SimProofs.after_release.
    rewrite (compactify_alive V _ AL).
    unfold catchup_calls. cbn [fold_left].
    rewrite exec_release by exact H. rewrite R. rewrite exec_force by reflexivity.
    cbn [parts npid cache recs crashed mk_new length andb].
    set (ps2 := map (forced V forcef n) _).
    rewrite (exec_tracker V C rel forcef cachef trackf ibmf _ _ (map (tracked V C cachef trackf n) ps2))
      by (try reflexivity; apply track_all_aligned).
    rewrite exec_ibm by reflexivity. unfold with_parts. cbn [parts npid cache recs crashed].
    rewrite ibm_all_tracked. reflexivity.
  Qed.

  (** * Schedules that agree on the steps taken give the same run *)
  Lemma step_gen_sched_ext (rel1 rel2 : Z -> list (Z * V)) do_out skip (s : sim) n :
    skip = true \/ rel1 n = rel2 n ->
    step_gen_with rel1 do_out skip s n = step_gen_with rel2 do_out skip s n.
  Proof.
    intros [->|E]; [reflexivity|]. unfold sim_step_gen. destruct skip; [reflexivity|]. rewrite E. reflexivity.
  Qed.
  Lemma fold_sched_ext (rel1 rel2 : Z -> list (Z * V)) l : Forall (fun n => rel1 n = rel2 n) l ->
    forall s : sim, fold_left (step_with rel1) l s = fold_left (step_with rel2) l s.
  Proof.
    induction 1 as [|n l Hn _ IH]; intro s; [reflexivity|]. cbn [fold_left]. rewrite IH.
    unfold sim_step. rewrite (step_gen_sched_ext rel1 rel2) by (right; exact Hn). reflexivity.
  Qed.
  Lemma pw_in_zrange_aux m : forall a x, In x (zrange_aux a m) -> a <= x.
  Proof.
    induction m as [|m IH]; intros a x Hx; [destruct Hx|]. cbn [zrange_aux] in Hx.
    destruct Hx as [<-|Hx]; [lia|]. apply IH in Hx. lia.
  Qed.
  (** [warm_run] never consults the schedule at or before the restart step *)
  Lemma warm_run_sched_ext (rel1 rel2 : Z -> list (Z * V)) r' N :
    (forall n, rstep r' < n -> rel1 n = rel2 n) ->
    warm_run_with rel1 r' np N = warm_run_with rel2 r' np N.
  Proof.
    intro E. unfold Sim.warm_run. rewrite (fold_sched_ext rel1 rel2).
    - rewrite (step_gen_sched_ext rel1 rel2) by (left; reflexivity). reflexivity.
    - apply Forall_forall. intros n Hn. apply E. unfold zrange in Hn. apply pw_in_zrange_aux in Hn. lia.
  Qed.
  Lemma warm_sched_later n : init_step true < n -> warm_sched true n = release_at n.
  Proof.
    intro Hn. unfold warm_sched. cbn [andb]. destruct (n =? init_step true) eqn:E; [|reflexivity].
    apply Z.eqb_eq in E. lia.
  Qed.

  (** * The link for warm starts *)
  (** everything after WarmStart, under plain [exec] with a schedule that has no rows at step 0 *)
  Lemma warm_tail_exec (rel : Z -> list (Z * V)) N hc : rel (init_step true) = [] ->
    fold_left (exec_with rel)
              (catchup_calls ++ loop_trace due (zrange (init_step true + 1) N) (init_step true) ++ finish_trace hc)
              (init_step true, restore r np) =
    (Z.max 0 (N - 1), warm_run_with rel rec0 np N).
  Proof.
    intro R. rewrite !fold_left_app.
    rewrite (catchup_is_step_gen rel) by (try reflexivity; try exact R; apply restore_alive).
    rewrite (steps_are_sim_steps V C rel forcef cachef trackf ibmf due)
      by (try (cbn [init_step]; lia); apply step_not_crashed; reflexivity).
    rewrite exec_inert.
    2:{ intros c Hc. right. unfold finish_trace in Hc. apply in_map_iff in Hc as (m & <- & _). reflexivity. }
    unfold Sim.warm_run, zrange. rewrite pr_length_zrange_aux.
    cbn [rec0 rstep init_step].
    assert (0 + Z.of_nat (Z.to_nat (N - (0 + 1))) = Z.max 0 (N - 1)) as -> by lia.
    (* with [skip_release = true] the step does not consult the schedule: both sides are convertible *)
    reflexivity.
  Qed.

  (** THE LINK: the whole call trace of a warm run of N steps, executed call by call from any
      non-crashed state, any clock and any flag, ends with the flag on, the clock at the last step and
      the system in the state [Sim.warm_run] from the restart record (numbered 0) *)
  Theorem run_trace_is_warm_run N hc w0 n0 (s0 : sim) : crashed s0 = false ->
    fold_left exec_w (run_trace true N due hc) (w0, (n0, s0)) =
    (true, (Z.max 0 (N - 1), warm_run rec0 np N)).
  Proof.
    intro H0. unfold run_trace, init_trace. rewrite <- app_assoc, fold_left_app.
    rewrite fold_exec_w_sched by exact none_warm_constructs.
    rewrite exec_inert.
    2:{ intros c Hc. left. apply in_map_iff in Hc as (m & <- & _). reflexivity. }
    rewrite warm_branch_split. cbn [app fold_left].
    rewrite exec_w_warmstart by exact H0.
    change (ReleaseUpdate :: ForceUpdate :: TrackerUpdate :: IbmUpdate ::
            loop_trace due (zrange (init_step true + 1) N) (init_step true) ++ finish_trace hc)
      with (catchup_calls ++ loop_trace due (zrange (init_step true + 1) N) (init_step true) ++ finish_trace hc).
    rewrite fold_exec_w_sched.
    2:{ apply none_app; [repeat constructor|]. apply none_app; [apply none_warm_loop|apply none_warm_finish]. }
    rewrite warm_tail_exec by reflexivity.
    rewrite (warm_run_sched_ext (warm_sched true) release_at) by (intros n Hn; apply warm_sched_later; exact Hn).
    reflexivity.
  Qed.

  (** in the usual setting: after the eight constructors of a fresh model, N >= 1 *)
  Corollary run_trace_is_warm_run_clock N hc : 1 <= N ->
    fold_left exec_w (run_trace true N due hc) (false, (step_after_construction, sim_init)) =
    (true, (N - 1, warm_run rec0 np N)).
  Proof. intro HN. rewrite run_trace_is_warm_run by reflexivity. rewrite Z.max_r by lia. reflexivity. Qed.

  Lemma rec0_id : rstep r = init_step true -> rec0 = r.
  Proof. intro E. unfold rec0. rewrite <- E. destruct r. reflexivity. Qed.

  (** when the restart record is already numbered 0 *)
  Corollary run_trace_is_warm_run_0 N hc w0 n0 (s0 : sim) : crashed s0 = false -> rstep r = 0 ->
    fold_left exec_w (run_trace true N due hc) (w0, (n0, s0)) = (true, (Z.max 0 (N - 1), warm_run r np N)).
  Proof. intros H0 E. rewrite run_trace_is_warm_run by exact H0. rewrite rec0_id by exact E. reflexivity. Qed.

  (** the restart file is the only source of the result: the state before WarmStart is irrelevant *)
  Corollary warm_trace_forgets_prestate N hc w0 n0 (s0 : sim) w1 n1 (s1 : sim) :
    crashed s0 = false -> crashed s1 = false ->
    fold_left exec_w (run_trace true N due hc) (w0, (n0, s0)) =
    fold_left exec_w (run_trace true N due hc) (w1, (n1, s1)).
  Proof. intros H0 H1. rewrite !run_trace_is_warm_run by assumption. reflexivity. Qed.

  (** * Consequences for the records of a warm run (any numbering of the restart record) *)
  Lemma warm_run_not_crashed r' N : crashed (warm_run r' np N) = false.
  Proof. unfold Sim.warm_run. apply fold_not_crashed. apply step_not_crashed. reflexivity. Qed.

  Lemma warm_run_nat r' m :
    warm_run r' np (rstep r' + 1 + Z.of_nat m) =
    fold_left step (zrange_aux (rstep r' + 1) m) (step_gen false true (restore r' np) (rstep r')).
  Proof.
    unfold Sim.warm_run, zrange.
    replace (Z.to_nat (rstep r' + 1 + Z.of_nat m - (rstep r' + 1))) with m by lia. reflexivity.
  Qed.
  Lemma warm_run_to_nat r' N :
    warm_run r' np N = warm_run r' np (rstep r' + 1 + Z.of_nat (Z.to_nat (N - (rstep r' + 1)))).
  Proof. rewrite warm_run_nat. reflexivity. Qed.

  Lemma pw_zrange_aux_snoc m : forall a, zrange_aux a (S m) = zrange_aux a m ++ [a + Z.of_nat m].
  Proof.
    induction m as [|m IH]; intro a.
    - cbn. f_equal. lia.
    - change (zrange_aux a (S (S m))) with (a :: zrange_aux (a + 1) (S m)). rewrite IH.
      cbn [zrange_aux app]. do 3 f_equal. lia.
  Qed.

  (** the state on entering step n (n > rstep r') is the warm run up to n; one more step is one [sim_step] *)
  Lemma warm_run_succ r' N : rstep r' + 1 <= N -> warm_run r' np (N + 1) = step (warm_run r' np N) N.
  Proof.
    intro HN. rewrite (warm_run_to_nat r' (N + 1)), (warm_run_to_nat r' N), !warm_run_nat.
    replace (Z.to_nat (N + 1 - (rstep r' + 1))) with (S (Z.to_nat (N - (rstep r' + 1)))) by lia.
    rewrite pw_zrange_aux_snoc, fold_left_app. cbn [fold_left]. f_equal. lia.
  Qed.

  (** the record the warm run writes at step n: the living particles on entering step n, then the
      particles released at n, each with the forcing-derived variables of step n, before the move *)
  Definition rec_at (r' : rec V) (n : Z) : rec V := snapshot V n (after_release (warm_run r' np n) false n).

  Lemma warm_run_recs_nat r' m :
    recs (warm_run r' np (rstep r' + 1 + Z.of_nat m)) =
    map (rec_at r') (filter due (zrange_aux (rstep r' + 1) m)).
  Proof.
    induction m as [|m IH].
    - rewrite warm_run_nat. cbn [zrange_aux fold_left filter map].
      rewrite step_spec by reflexivity. reflexivity.
    - replace (rstep r' + 1 + Z.of_nat (S m)) with (rstep r' + 1 + Z.of_nat m + 1) by lia.
      rewrite warm_run_succ by lia.
      rewrite (step_recs V C release_at forcef cachef trackf ibmf due) by apply warm_run_not_crashed.
      rewrite IH, pw_zrange_aux_snoc, filter_app, map_app. f_equal.
      cbn [filter]. destruct (due (rstep r' + 1 + Z.of_nat m)); reflexivity.
  Qed.

  (** T2 for warm runs: the records of a warm run are the snapshots at the due steps after the restart
      step, in order, none at the restart step itself, each showing the state after the release and the
      forcing of its own step *)
  Theorem warm_run_recs r' N :
    recs (warm_run r' np N) = map (rec_at r') (filter due (zrange (rstep r' + 1) N)).
  Proof. rewrite warm_run_to_nat, warm_run_recs_nat. reflexivity. Qed.

  (** what a record shows (definitions unfolded so that the statement can be read on its own) *)
  Lemma rec_at_is r' n :
    rstep (rec_at r' n) = n /\
    rrows (rec_at r' n) =
    map (fun p : part => (ppid p, tag p, pval p))
        (map (forced V forcef n)
             (filter palive (parts (warm_run r' np n)) ++ mk_new V (npid (warm_run r' np n)) (release_at n))).
  Proof. split; reflexivity. Qed.

  Corollary warm_run_rec_steps r' N :
    map rstep (recs (warm_run r' np N)) = filter due (zrange (rstep r' + 1) N).
  Proof.
    rewrite warm_run_recs, map_map. cbn [rec_at snapshot rstep]. apply map_id.
  Qed.

  (** every record of a warm run is due, strictly after the restart step and before the end *)
  Corollary warm_run_rec_steps_range r' N :
    Forall (fun rc => rstep r' < rstep rc < N /\ due (rstep rc) = true) (recs (warm_run r' np N)).
  Proof.
    apply Forall_forall. intros rc Hrc.
    assert (In (rstep rc) (map rstep (recs (warm_run r' np N)))) as Hin by (apply in_map; exact Hrc).
    rewrite warm_run_rec_steps in Hin. apply filter_In in Hin as [Hin D]. split; [|exact D].
    unfold zrange in Hin. apply (in_zrange_aux V C release_at forcef cachef trackf ibmf due) in Hin. lia.
  Qed.

  (** the move of step n acts on the very list the record of step n shows (cf. C19_record_is_consistent) *)
  Corollary warm_run_record_then_move r' N : rstep r' + 1 <= N ->
    parts (warm_run r' np (N + 1)) = map (moved V C cachef trackf ibmf N) (after_release (warm_run r' np N) false N) /\
    recs (warm_run r' np (N + 1)) = recs (warm_run r' np N) ++ (if due N then [rec_at r' N] else []).
  Proof.
    intro HN. rewrite warm_run_succ by exact HN. split.
    - unfold sim_step. rewrite step_spec by apply warm_run_not_crashed. reflexivity.
    - rewrite (step_recs V C release_at forcef cachef trackf ibmf due) by apply warm_run_not_crashed. reflexivity.
  Qed.

  (** the same, read off the state reached by executing the call trace *)
  Corollary warm_trace_records N hc w0 n0 (s0 : sim) : crashed s0 = false ->
    let W := snd (snd (fold_left exec_w (run_trace true N due hc) (w0, (n0, s0)))) in
    recs W = map (rec_at rec0) (filter due (zrange 1 N)) /\
    map rstep (recs W) = filter due (zrange 1 N) /\
    crashed W = false.
  Proof.
    intros H0 W. unfold W. rewrite run_trace_is_warm_run by exact H0. cbn [snd].
    split; [|split].
    - rewrite warm_run_recs. reflexivity.
    - rewrite warm_run_rec_steps. reflexivity.
    - apply warm_run_not_crashed.
  Qed.
End W.

(** * The link in absolute step numbers *)
Section Abs.
  Variables V C : Type.
  (** the environment in absolute step numbers ... *)
  Variable rel : Z -> list (Z * V).
  Variable ff : Z -> V -> V.
  Variable cf : Z -> V -> C.
  Variable tf : Z -> V -> C -> V * bool.
  Variable bf : Z -> V -> V * bool.
  Variable du : Z -> bool.
  (** ... and as the restarted run sees it, its clock counting from the restart step *)
  Variable rel' : Z -> list (Z * V).
  Variable ff' : Z -> V -> V.
  Variable cf' : Z -> V -> C.
  Variable tf' : Z -> V -> C -> V * bool.
  Variable bf' : Z -> V -> V * bool.
  Variable du' : Z -> bool.
  Variable r : rec V.
  Variable np : Z.
  Variable N : Z.
  Hypothesis Hrel : forall n, 0 < n < N -> rel' n = rel (n + rstep r).
  Hypothesis Hff : forall n v, 0 <= n -> ff' n v = ff (n + rstep r) v.
  Hypothesis Hcf : forall n v, 0 <= n -> cf' n v = cf (n + rstep r) v.
  Hypothesis Htf : forall n v c, 0 <= n -> tf' n v c = tf (n + rstep r) v c.
  Hypothesis Hbf : forall n v, 0 <= n -> bf' n v = bf (n + rstep r) v.
  Hypothesis Hdu : forall n, 0 <= n -> du' n = du (n + rstep r).

  Lemma relabel_rec0 : relabel_rec V (rstep r) (rec0 V r) = r.
  Proof. unfold relabel_rec, rec0. cbn [rstep rrows init_step Z.add]. destruct r. reflexivity. Qed.

  (** the state reached by executing the warm trace of N steps, with its records relabelled from the
      restarted run's step numbers to absolute ones, is [warm_run] from r over the absolute steps
      rstep r .. N + rstep r - 1 *)
  Theorem run_trace_is_warm_run_abs hc w0 n0 (s0 : sim V C) : crashed s0 = false ->
    let fin := fold_left (exec_w V C rel' ff' cf' tf' bf' r np) (run_trace true N du' hc) (w0, (n0, s0)) in
    fst fin = true /\ fst (snd fin) = Z.max 0 (N - 1) /\
    relabel V C (rstep r) (snd (snd fin)) = warm_run V C rel ff cf tf bf du r np (N + rstep r).
  Proof.
    intros H0 fin. unfold fin. rewrite run_trace_is_warm_run by exact H0. cbn [fst snd].
    split; [reflexivity|]. split; [reflexivity|].
    rewrite (warm_run_relabel V C rel rel' ff ff' cf cf' tf tf' bf bf' du du' (rstep r)
               (fun n => 0 <= n) (fun n => 0 < n < N)) by
      (try assumption; cbn [rec0 rstep init_step]; intros; lia).
    rewrite relabel_rec0. reflexivity.
  Qed.
End Abs.

(** * Stop, restart, execute the warm trace call by call = never having stopped *)
Section Continue.
  Variables V C : Type.
  Variable rel : Z -> list (Z * V).
  Variable ff : Z -> V -> V.
  Variable cf : Z -> V -> C.
  Variable tf : Z -> V -> C -> V * bool.
  Variable bf : Z -> V -> V * bool.
  Variable du : Z -> bool.
  (** forcing-derived variables are overwritten by Forcing.update, not accumulated (as in C08) *)
  Hypothesis ff_idem : forall n v, ff n (ff n v) = ff n v.

  (** the environment seen by a run whose clock starts at absolute step R *)
  Definition shift_env {A} (R : Z) (f : Z -> A) : Z -> A := fun n => f (n + R).

  Theorem warm_trace_continues_cold_run N R hc : 0 <= R < N -> du R = true ->
    let step := sim_step V C rel ff cf tf bf du in
    let before := fold_left step (zrange 0 R) (sim_init V C) in
    let rec_R := snapshot V R (after_release V C rel ff before false R) in
    let npR := npid before + Z.of_nat (length (rel R)) in
    let cold := cold_run V C rel ff cf tf bf du N in
    let fin := fold_left (exec_w V C (shift_env R rel) (shift_env R ff) (shift_env R cf) (shift_env R tf)
                                 (shift_env R bf) rec_R npR)
                         (run_trace true (N - R) (shift_env R du) hc)
                         (false, (step_after_construction, sim_init V C)) in
    let W := snd (snd fin) in
    fst fin = true /\ fst (snd fin) = N - R - 1 /\
    recs cold = recs before ++ [rec_R] ++ map (relabel_rec V R) (recs W) /\
    parts cold = parts W /\ npid cold = npid W /\ crashed W = false.
  Proof.
    intros HR D step before rec_R npR cold fin W.
    destruct (run_trace_is_warm_run_abs V C rel ff cf tf bf du
                (shift_env R rel) (shift_env R ff) (shift_env R cf) (shift_env R tf) (shift_env R bf)
                (shift_env R du) rec_R npR (N - R)
                ltac:(reflexivity) ltac:(reflexivity) ltac:(reflexivity) ltac:(reflexivity)
                ltac:(reflexivity) ltac:(reflexivity)
                hc false step_after_construction (sim_init V C) eq_refl) as (E1 & E2 & E3).
    fold fin in E1, E2, E3. fold W in E3.
    change (rstep rec_R) with R in E3. replace (N - R + R) with N in E3 by lia.
    destruct (warm_equals_cold_suffix V C rel ff cf tf bf du ff_idem N R HR D) as (A1 & A2 & A3 & A4).
    fold step before rec_R npR cold in A1, A2, A3, A4. rewrite <- E3 in A1, A2, A3, A4.
    cbn [relabel recs parts npid crashed] in A1, A2, A3, A4.
    split; [exact E1|]. split; [rewrite E2; lia|]. repeat split; assumption.
  Qed.
End Continue.

(** * A concrete instance *)
Module Ex.
  (** V = position; the restart step has a release row (tag 99) that must NOT be released again; rows are
      released at steps 1 and 3; the tracker adds the cached value (position + step), the IBM adds 1 and
      kills what has reached 100 or more; records are due at every step but step 1 *)
  Definition rel (n : Z) : list (Z * Z) :=
    if n =? 0 then [(99, 999)] else if n =? 1 then [(10, 40)] else if n =? 3 then [(11, 1); (12, 2)] else [].
  Definition ff (n : Z) (v : Z) : Z := v.
  Definition cf (n : Z) (v : Z) : Z := v + n.
  Definition tf (n : Z) (v c : Z) : Z * bool := (v + c, true).
  Definition bf (n : Z) (v : Z) : Z * bool := (v + 1, v <? 100).
  Definition du (n : Z) : bool := negb (n =? 1).
  Definition r0 : rec Z := {| rstep := 0; rrows := [(0, 1, 5); (3, 2, 7)] |}.
  Definition hc (m : modname) : bool := match m with MForcing | MOutput => true | _ => false end.
  Definition fin := fold_left (exec_w Z Z rel ff cf tf bf r0 4) (run_trace true 4 du hc)
                              (false, (step_after_construction, sim_init Z Z)).

  Example ex_link : fin = (true, (3, warm_run Z Z rel ff cf tf bf du r0 4 4)).
  Proof. vm_compute. reflexivity. Qed.
  (** the theorem gives the same (its hypotheses hold: the initial state is not crashed, rstep r0 = 0) *)
  Example ex_link_by_theorem : fin = (true, (Z.max 0 (4 - 1), warm_run Z Z rel ff cf tf bf du r0 4 4)).
  Proof. unfold fin. apply run_trace_is_warm_run_0; reflexivity. Qed.
  (** the value: records at steps 2 and 3 only (none at the restart step 0, step 1 is not due).  pid 0 goes
      5 -> 11 -> 24 -> 51 -> 106 and pid 3 goes 7 -> 15 -> 32 -> 67 -> 138: both are in the records of steps
      2 and 3 with their positions BEFORE the move of that step, and are killed by the IBM of step 3 (dead in
      the final state).  The row of tag 99 at the restart step was never released (the pids continue at 4).
      pid 4 entered at step 1 with 40 and was killed by the IBM of step 2 (40 -> 82 -> 167): it is in the
      record of step 2 and not in that of step 3.  pids 5 and 6 enter at step 3. *)
  Example ex_value :
    fin = (true, (3,
      {| parts := [ {| tag := 1; ppid := 0; pval := 106; palive := false |};
                    {| tag := 2; ppid := 3; pval := 138; palive := false |};
                    {| tag := 11; ppid := 5; pval := 6; palive := true |};
                    {| tag := 12; ppid := 6; pval := 8; palive := true |} ];
         npid := 7; cache := [54; 70; 4; 5];
         recs := [ {| rstep := 2; rrows := [(0, 1, 24); (3, 2, 32); (4, 10, 82)] |};
                   {| rstep := 3; rrows := [(0, 1, 51); (3, 2, 67); (5, 11, 1); (6, 12, 2)] |} ];
         crashed := false |})).
  Proof. vm_compute. reflexivity. Qed.
  (** plain [exec] on the same trace does not restore and releases the rows of step 0 *)
  Example ex_exec_differs :
    snd (fold_left (exec Z Z rel ff cf tf bf) (run_trace true 4 du hc) (0, sim_init Z Z)) <>
    warm_run Z Z rel ff cf tf bf du r0 4 4.
  Proof. vm_compute. intro E. discriminate E. Qed.

  (** stop-and-restart, end to end: the uninterrupted run of 5 steps against the run stopped after the
      record of step 2 and restarted from it, the restarted run executed call by call in its own numbering
      (clock 0 = absolute step 2).  The hypotheses of [warm_trace_continues_cold_run] hold ([ff] is
      idempotent, a record is due at step 2), and both sides compute to the same non-trivial records. *)
  Definition ex_continue :=
    warm_trace_continues_cold_run Z Z rel ff cf tf bf du (fun _ _ => eq_refl) 5 2 hc
                                  ltac:(lia) eq_refl.
  Example ex_continue_value :
    let before := fold_left (sim_step Z Z rel ff cf tf bf du) (zrange 0 2) (sim_init Z Z) in
    let rec_R := snapshot Z 2 (after_release Z Z rel ff before false 2) in
    let npR := npid before + Z.of_nat (length (rel 2)) in
    let W := snd (snd (fold_left
               (exec_w Z Z (shift_env 2 rel) (shift_env 2 ff) (shift_env 2 cf) (shift_env 2 tf) (shift_env 2 bf) rec_R npR)
               (run_trace true (5 - 2) (shift_env 2 du) hc) (false, (step_after_construction, sim_init Z Z)))) in
    let cold := cold_run Z Z rel ff cf tf bf du 5 in
    map rstep (recs before) = [0] /\ rstep rec_R = 2 /\ map rstep (recs W) = [1; 2] /\
    recs cold = recs before ++ [rec_R] ++ map (relabel_rec Z 2) (recs W) /\
    map rstep (recs cold) = [0; 2; 3; 4] /\
    map (rec_pids Z) (recs cold) = [[0]; [1]; [2; 3]; [2; 3]] /\
    parts cold = parts W /\ npid cold = 4.
  Proof. vm_compute. repeat split. Qed.
End Ex.

Print Assumptions run_trace_is_warm_run.
Print Assumptions run_trace_is_cold_run_w.
Print Assumptions run_trace_is_warm_run_abs.
Print Assumptions warm_run_recs.
Print Assumptions warm_trace_records.
Print Assumptions warm_trace_continues_cold_run.
Print Assumptions Ex.ex_value.
