(** Base/Num.v — number helpers shared by all models.
    Z for times/steps/indices, Q for real-valued quantities (exact rationals; every finite
    float64 is a rational).  Definitions first, interface lemmas after; models import only this. *)
From Coq Require Import ZArith QArith Qround Qabs List Bool Lia Lqa.
Import ListNotations.
Open Scope Z_scope.

(** * Decoding of numbers written by the harness *)
(** A float is written as numerator and (positive) denominator. *)
Definition mkQ (num den : Z) : Q := Qmake num (Z.to_pos den).

(** * Integer rounding on Q as numpy/Python do it *)
Definition qfloor (x : Q) : Z := Qfloor x.
Definition qceil (x : Q) : Z := Qceiling x.
(** [int(x)], [astype(int)]: truncation toward zero *)
Definition qtrunc (x : Q) : Z := if Qle_bool 0 x then Qfloor x else Qceiling x.
(** [round], [np.around]: round half to even *)
Definition qround (x : Q) : Z :=
  let f := Qfloor x in
  let r := (x - inject_Z f)%Q in            (* 0 <= r < 1 *)
  match Qcompare r (1#2) with
  | Lt => f
  | Gt => f + 1
  | Eq => if Z.even f then f else f + 1
  end.

Definition Qmin' (a b : Q) : Q := if Qle_bool a b then a else b.
Definition Qmax' (a b : Q) : Q := if Qle_bool a b then b else a.
Definition clamp (lo hi x : Q) : Q := Qmax' lo (Qmin' x hi).
Definition Qlt_bool (a b : Q) : bool := negb (Qle_bool b a).
Definition Qeqb (a b : Q) : bool := Qeq_bool a b.

(** relative/absolute tolerance comparison used by the general correspondence stream *)
Definition close (tol : Q) (a b : Q) : bool :=
  Qle_bool (Qabs (a - b)%Q) (tol * (1 + Qabs a + Qabs b))%Q.

(** linear interpolation *)
Definition lerp (a fa b fb t : Q) : Q := (fa + (fb - fa) * ((t - a) / (b - a)))%Q.

(** * Lists *)
Fixpoint nth_opt {A} (l : list A) (n : nat) : option A :=
  match l, n with
  | [], _ => None
  | x :: _, O => Some x
  | _ :: r, S k => nth_opt r k
  end.
Definition znth_opt {A} (l : list A) (i : Z) : option A :=
  if i <? 0 then None else nth_opt l (Z.to_nat i).

Fixpoint zsum (l : list Z) : Z := match l with [] => 0 | x :: r => x + zsum r end.
Fixpoint zrange_aux (start : Z) (n : nat) : list Z :=
  match n with O => [] | S k => start :: zrange_aux (start + 1) k end.
Definition zrange (lo hi : Z) : list Z := zrange_aux lo (Z.to_nat (hi - lo)).

Fixpoint list_eqb_Z (a b : list Z) : bool :=
  match a, b with
  | [], [] => true
  | x :: r, y :: t => (x =? y) && list_eqb_Z r t
  | _, _ => false
  end.
Fixpoint list_eqb_LZ (a b : list (list Z)) : bool :=
  match a, b with
  | [], [] => true
  | x :: r, y :: t => list_eqb_Z x y && list_eqb_LZ r t
  | _, _ => false
  end.

(** ceiling division for positive divisors *)
Definition cdiv (a b : Z) : Z := - ((- a) / b).

(** * Interface lemmas *)
Lemma Qle_bool_true a b : Qle_bool a b = true <-> (a <= b)%Q.
Proof. apply Qle_bool_iff. Qed.
Lemma Qle_bool_false a b : Qle_bool a b = false <-> (b < a)%Q.
Proof.
  split; intro H.
  - destruct (Qlt_le_dec b a) as [L|L]; [exact L|]. apply Qle_bool_iff in L. congruence.
  - destruct (Qle_bool a b) eqn:E; [|reflexivity]. apply Qle_bool_iff in E.
    exfalso. apply (Qlt_not_le _ _ H E).
Qed.
Lemma Qlt_bool_true a b : Qlt_bool a b = true <-> (a < b)%Q.
Proof. unfold Qlt_bool. rewrite negb_true_iff. apply Qle_bool_false. Qed.
Lemma Qlt_bool_false a b : Qlt_bool a b = false <-> (b <= a)%Q.
Proof. unfold Qlt_bool. rewrite negb_false_iff. apply Qle_bool_true. Qed.

Lemma Qmin'_spec a b : (Qmin' a b <= a /\ Qmin' a b <= b /\ (Qmin' a b == a \/ Qmin' a b == b))%Q.
Proof.
  unfold Qmin'. destruct (Qle_bool a b) eqn:E.
  - apply Qle_bool_true in E. repeat split; [apply Qle_refl|exact E|left; reflexivity].
  - apply Qle_bool_false in E. repeat split; [apply Qlt_le_weak; exact E|apply Qle_refl|right; reflexivity].
Qed.
Lemma Qmax'_spec a b : (a <= Qmax' a b /\ b <= Qmax' a b /\ (Qmax' a b == a \/ Qmax' a b == b))%Q.
Proof.
  unfold Qmax'. destruct (Qle_bool a b) eqn:E.
  - apply Qle_bool_true in E. repeat split; [exact E|apply Qle_refl|right; reflexivity].
  - apply Qle_bool_false in E. repeat split; [apply Qle_refl|apply Qlt_le_weak; exact E|left; reflexivity].
Qed.
Lemma clamp_bounds lo hi x : (lo <= hi)%Q -> (lo <= clamp lo hi x <= hi)%Q.
Proof.
  intro H. unfold clamp.
  destruct (Qmax'_spec lo (Qmin' x hi)) as (A & B & C).
  destruct (Qmin'_spec x hi) as (D & E & F).
  split; [exact A|]. destruct C as [C|C]; rewrite C; [exact H|exact E].
Qed.
Lemma clamp_id lo hi x : (lo <= x <= hi)%Q -> (clamp lo hi x == x)%Q.
Proof.
  intros [A B]. unfold clamp, Qmin', Qmax'.
  destruct (Qle_bool x hi) eqn:E1.
  - destruct (Qle_bool lo x) eqn:E2; [reflexivity|]. apply Qle_bool_false in E2. lra.
  - apply Qle_bool_false in E1. lra.
Qed.

Lemma qfloor_spec x : (inject_Z (qfloor x) <= x < inject_Z (qfloor x + 1))%Q.
Proof. unfold qfloor. split; [apply Qfloor_le|apply Qlt_floor]. Qed.
Lemma qceil_spec x : (inject_Z (qceil x - 1) < x <= inject_Z (qceil x))%Q.
Proof.
  unfold qceil. split; [|apply Qle_ceiling].
  replace (Qceiling x - 1) with (Qceiling x + -1) by lia. apply Qceiling_lt.
Qed.

Lemma qfloor_unique x n : (inject_Z n <= x < inject_Z (n + 1))%Q -> qfloor x = n.
Proof.
  intros [A B]. destruct (qfloor_spec x) as [C D].
  assert (inject_Z n < inject_Z (qfloor x + 1))%Q as H1 by lra.
  assert (inject_Z (qfloor x) < inject_Z (n + 1))%Q as H2 by lra.
  rewrite <- Zlt_Qlt in H1, H2. lia.
Qed.

(** qtrunc of a non-negative number is its floor, and lies within 1 below it *)
Lemma qtrunc_nonneg x : (0 <= x)%Q -> qtrunc x = qfloor x.
Proof. intro H. unfold qtrunc. apply Qle_bool_true in H. rewrite H. reflexivity. Qed.

(** round-half-even is within 1/2 of its argument *)
Lemma qround_spec x : (inject_Z (qround x) - (1#2) <= x <= inject_Z (qround x) + (1#2))%Q.
Proof.
  unfold qround. destruct (qfloor_spec x) as [A B]. unfold qfloor in *.
  rewrite inject_Z_plus in B. change (inject_Z 1) with 1%Q in B.
  destruct (Qcompare (x - inject_Z (Qfloor x))%Q (1#2)) eqn:E.
  - apply Qeq_alt in E. destruct (Z.even (Qfloor x)).
    + lra.
    + rewrite inject_Z_plus. change (inject_Z 1) with 1%Q. lra.
  - apply Qlt_alt in E. lra.
  - apply Qgt_alt in E. rewrite inject_Z_plus. change (inject_Z 1) with 1%Q. lra.
Qed.

(** ceiling division *)
Lemma cdiv_spec a b : 0 < b -> b * (cdiv a b - 1) < a <= b * cdiv a b.
Proof.
  intro Hb. unfold cdiv.
  pose proof (Z.div_mod (- a) b ltac:(lia)) as H.
  pose proof (Z.mod_pos_bound (- a) b Hb) as H2. nia.
Qed.
Lemma cdiv_unique a b q : 0 < b -> b * (q - 1) < a <= b * q -> cdiv a b = q.
Proof.
  intros Hb H. pose proof (cdiv_spec a b Hb) as S. nia.
Qed.
